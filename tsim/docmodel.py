"""Reference document model for C15: a deliberately simple tree with its own
serialiser, mirrored once from a freshly parsed real tree *by identity* and
then edited by plain list operations.  It never calls TexSoup's search,
navigation or serialisation code.
"""


class M:
    __slots__ = ('kind', 'name', 'begin', 'end', 'args', 'body', 'text', 'parent', 'real', 'uid', 'argflag')
    _n = 0

    def __init__(self, kind, name=None, begin='', end='', text=None, real=None):
        self.kind = kind        # root env cmd group math text
        self.name = name
        self.begin = begin
        self.end = end
        self.args = []
        self.body = []
        self.text = text
        self.parent = None
        self.real = real
        self.argflag = False    # this group is (or was created as) an argument of its parent
        M._n += 1
        self.uid = M._n

    # -- structure -----------------------------------------------------
    def adopt(self):
        for a in self.args:
            a.parent = self
            a.argflag = True
        for b in self.body:
            b.parent = self

    def is_arg(self):
        # persistent: an argument group that has been removed from its owner's
        # list is still an argument group (navigation never treats it as a body)
        return self.argflag

    def in_parent(self):
        p = self.parent
        if p is None:
            return self.kind == 'root'
        return any(x is self for x in p.body) or any(x is self for x in p.args)

    def attached(self):
        n = self
        while n.kind != 'root':
            if not n.in_parent():
                return False
            n = n.parent
        return True

    def wrapper_parent(self):
        """The node TexSoup's navigation reports as parent: argument groups
        are transparent."""
        p = self.parent
        if p is not None and p.is_arg():
            return p.parent
        return p

    # -- serialisation -------------------------------------------------
    def ser(self):
        k = self.kind
        if k == 'text':
            return self.text
        args = ''.join(a.ser() for a in self.args)
        body = ''.join(b.ser() for b in self.body)
        if k == 'root':
            return body
        if k == 'env':
            return '\\begin{%s}%s%s\\end{%s}' % (self.name, args, body, self.name)
        if k == 'cmd':
            return '\\%s%s%s' % (self.name, args, body)
        return self.begin + args + body + self.end   # group, math

    # -- views ---------------------------------------------------------
    def blank(self):
        return self.kind == 'text' and self.text.isspace()

    def flat_contents(self):
        """Elements the navigation treats as this node's contents: the
        contents of its argument groups, then its body; blank text dropped."""
        out = []
        for a in self.args:
            if a.kind == 'group':
                out.extend(x for x in a.body if not x.blank())
            else:
                out.extend(x for x in a.flat_contents())
        out.extend(x for x in self.body if not x.blank())
        return [x for x in out if not (x.kind == 'text' and x.text == '')]

    def descendants(self):
        out = []
        level = self.flat_contents()
        out.extend(level)
        for c in level:
            if c.kind != 'text':
                out.extend(c.descendants())
        return out

    def texts(self):
        out = []
        for c in self.flat_contents():
            if c.kind == 'text':
                out.append(c.text)
            else:
                out.extend(c.texts())
        return out

    def nodes(self):
        """Every node of this subtree (arguments included)."""
        out = [self]
        for a in self.args:
            out.extend(a.nodes())
        for b in self.body:
            out.extend(b.nodes())
        return out


def is_texnode(x):
    return type(x).__name__ == 'TexNode'


def unwrap(x):
    return x.expr if is_texnode(x) else x


def mirror(expr, reg):
    """Build the model of a real expression (by class name, never by calling
    TexSoup logic) and register real object -> model node."""
    expr = unwrap(expr)
    cls = type(expr).__name__
    if cls == 'TexText':
        m = M('text', text=str(expr._text), real=expr)
    elif isinstance(expr, str):
        m = M('text', text=str(expr), real=expr)
    else:
        if cls == 'TexNamedEnv':
            m = M('env', name=str(expr.name), real=expr)
        elif cls == 'TexCmd':
            m = M('cmd', name=str(expr.name), real=expr)
        elif cls in ('BraceGroup', 'BracketGroup'):
            m = M('group', name=cls, begin=expr.begin, end=expr.end, real=expr)
        elif getattr(expr, 'name', None) == '[tex]':
            m = M('root', real=expr)
        else:
            m = M('math', name=str(expr.name), begin=str(expr.begin), end=str(expr.end), real=expr)
        m.args = [mirror(a, reg) for a in list(expr.args)]
        m.body = [mirror(c, reg) for c in list(expr._contents)]
        m.adopt()
    if hasattr(expr, '_contents'):
        reg[id(expr)] = (m, expr)
    return m


def compare(m, expr, reg, path='root'):
    """Parallel walk: the real tree must hold, at every place, the object the
    model holds there (objects the model has not seen yet are bound)."""
    if is_texnode(expr):
        # a navigation wrapper stored inside the tree: compare through it
        expr = expr.expr
    cls = type(expr).__name__
    tracked = hasattr(expr, '_contents')   # expressions have identity; bare strings do not
    if m.real is None or not hasattr(m.real, '_contents'):
        if tracked:
            if id(expr) in reg and reg[id(expr)][0] is not m:
                return '%s: object of another model node (%s) found here' % (path, reg[id(expr)][0].ser()[:40])
            m.real = expr
            reg[id(expr)] = (m, expr)
    elif m.real is not expr:
        return '%s: expected the node %r, found another object %r' % (path, m.ser()[:40], str(expr)[:40])
    if m.kind == 'text':
        if not isinstance(expr, str):
            return '%s: expected text %r, found %s' % (path, m.text[:30], cls)
        t = str(expr._text) if cls == 'TexText' else str(expr)
        if t != m.text:
            return '%s: text %r became %r' % (path, m.text[:40], t[:40])
        return None
    if isinstance(expr, str) and cls != 'TexText':
        return '%s: expected %s node, found bare string %r' % (path, m.kind, str(expr)[:30])
    if cls == 'TexText':
        return '%s: expected %s node, found text %r' % (path, m.kind, str(expr)[:30])
    if m.kind in ('env', 'cmd') and str(expr.name) != m.name:
        return '%s: name %r became %r' % (path, m.name, str(expr.name))
    rargs = list(expr.args)
    if len(rargs) != len(m.args):
        return '%s (%s): %d arguments, model has %d' % (path, m.ser()[:30], len(rargs), len(m.args))
    for k, (ma, ra) in enumerate(zip(m.args, rargs)):
        r = compare(ma, ra, reg, '%s.args[%d]' % (path, k))
        if r:
            return r
    rbody = list(expr._contents)
    if len(rbody) != len(m.body):
        return '%s (%s): body has %d elements, model has %d' % (path, m.ser()[:30], len(rbody), len(m.body))
    for k, (mb, rb) in enumerate(zip(m.body, rbody)):
        r = compare(mb, rb, reg, '%s[%d]' % (path, k))
        if r:
            return r
    return None
