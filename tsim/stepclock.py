"""Simulated time: a step clock over TexSoup code.

``sys.monitoring`` local events PY_START | PY_RESUME | JUMP are enabled on every
code object defined in the TexSoup package.  Each event is one tick.  A loop
cannot spin without a backward JUMP and a recursion cannot deepen without
PY_START, so non-termination always advances the clock.  When the budget of the
current measurement is exceeded the callback raises StepBudgetExceeded (a
BaseException, so TexSoup's ``except`` clauses cannot swallow it).

The tick count is a deterministic function of (code, input, options, hash
seed).  No wall clock is read here.
"""
import sys
import types

TOOL_ID = 3  # any free id 0..5; 3 is unassigned by convention
_mon = sys.monitoring


class StepBudgetExceeded(BaseException):
    pass


class StepClock:
    def __init__(self):
        self.ticks = 0
        self.total = 0
        self.budget = None
        self.installed = False
        self.ncode = 0
        self.lines_hit = set()
        self._line_cov = False

    # -- discovery of code objects -------------------------------------
    @staticmethod
    def _code_objects(pkg_name='TexSoup'):
        seen = {}
        mods = [m for n, m in sorted(sys.modules.items())
                if m is not None and (n == pkg_name or n.startswith(pkg_name + '.'))]

        def walk_code(co):
            if id(co) in seen:
                return
            seen[id(co)] = co
            for c in co.co_consts:
                if isinstance(c, types.CodeType):
                    walk_code(c)

        def walk_obj(o, modname, depth=0):
            if depth > 4:
                return
            if isinstance(o, (staticmethod, classmethod)):
                o = o.__func__
            if isinstance(o, property):
                for f in (o.fget, o.fset, o.fdel):
                    if f is not None:
                        walk_obj(f, modname, depth + 1)
                return
            # unwrap decorated functions
            w = getattr(o, '__wrapped__', None)
            if w is not None and depth < 4:
                walk_obj(w, modname, depth + 1)
            if isinstance(o, types.FunctionType):
                if o.__code__.co_filename.startswith(pkg_dir):
                    walk_code(o.__code__)
                if o.__closure__:
                    for cell in o.__closure__:
                        try:
                            v = cell.cell_contents
                        except ValueError:
                            continue
                        if isinstance(v, types.FunctionType):
                            walk_obj(v, modname, depth + 1)
            elif isinstance(o, type):
                if getattr(o, '__module__', '').startswith(pkg_name):
                    for v in list(vars(o).values()):
                        walk_obj(v, modname, depth + 1)

        import os
        pkg = sys.modules[pkg_name]
        pkg_dir = os.path.dirname(os.path.abspath(pkg.__file__))
        for m in mods:
            for v in list(vars(m).values()):
                walk_obj(v, m.__name__)
        return [co for co in seen.values() if co.co_filename.startswith(pkg_dir)]

    def install(self, line_coverage=False):
        if self.installed:
            return
        import TexSoup  # noqa: F401  (must be imported before discovery)
        import TexSoup.tex, TexSoup.reader, TexSoup.tokens, TexSoup.category  # noqa
        import TexSoup.data, TexSoup.utils  # noqa
        _mon.use_tool_id(TOOL_ID, 'tsim-stepclock')
        ev = _mon.events
        _mon.register_callback(TOOL_ID, ev.PY_START, self._tick2)
        _mon.register_callback(TOOL_ID, ev.PY_RESUME, self._tick2)
        _mon.register_callback(TOOL_ID, ev.JUMP, self._tick3)
        mask = ev.PY_START | ev.PY_RESUME | ev.JUMP
        self._line_cov = line_coverage
        if line_coverage:
            _mon.register_callback(TOOL_ID, ev.LINE, self._line)
            mask |= ev.LINE
        cos = self._code_objects()
        for co in cos:
            _mon.set_local_events(TOOL_ID, co, mask)
        self.ncode = len(cos)
        self._total_lines = None
        self._cos = cos
        self.installed = True

    def uninstall(self):
        if not self.installed:
            return
        for co in self._cos:
            _mon.set_local_events(TOOL_ID, co, 0)
        _mon.free_tool_id(TOOL_ID)
        self.installed = False

    # -- callbacks -----------------------------------------------------
    def _tick2(self, code, offset):
        self.ticks += 1
        if self.budget is not None and self.ticks > self.budget:
            self.budget = None  # raise once
            raise StepBudgetExceeded(self.ticks)

    def _tick3(self, code, src, dst):
        self.ticks += 1
        if self.budget is not None and self.ticks > self.budget:
            self.budget = None
            raise StepBudgetExceeded(self.ticks)

    def _line(self, code, line):
        self.lines_hit.add((code.co_filename, line))
        return _mon.DISABLE

    # -- measurement ---------------------------------------------------
    def start(self, budget=None):
        self.ticks = 0
        self.budget = budget

    def stop(self):
        t = self.ticks
        self.total += t
        self.budget = None
        return t

    def line_coverage(self):
        """(hit, total) executable lines of the TexSoup package."""
        import dis
        if self._total_lines is None:
            tot = set()
            for co in self._cos:
                for _, _, ln in co.co_lines():
                    if ln is not None:
                        tot.add((co.co_filename, ln))
            self._total_lines = tot
        return sorted(self.lines_hit & self._total_lines), len(self._total_lines)


CLOCK = StepClock()
