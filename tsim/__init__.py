"""tsim - deterministic simulation with fault injection for TexSoup.

See /verif/DESIGN.md.  Standard library only; run with /venv/bin/python.
"""
GUARD = 'TEXSOUP_VERIF'
REPO = '/repo'
