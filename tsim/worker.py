"""A world: one fresh interpreter with a pinned PYTHONHASHSEED.

Reads one JSON job on stdin, writes one JSON result on stdout.  Jobs:

  op=runs      generate and execute run indices [lo, hi) of a property
  op=exec      execute the given literal cases (replay), return full logs
  op=minimize  shrink one failing case in this world, return it
  op=call      call engine.<func>(payload) (engine-specific world work)
"""
import faulthandler
import importlib
import json
import os
import sys
import traceback

from . import rng


def engine_for(prop):
    return importlib.import_module('tsim.engines.' + prop.lower())


def world_info():
    return {'hashseed': os.environ.get('PYTHONHASHSEED'),
            'python': sys.version.split()[0]}


def op_runs(job):
    eng = engine_for(job['prop'])
    eng.setup(job)
    agg = {'counters': {}, 'digests': [], 'keys': [], 'violations': [], 'samples': [],
           'harness_errors': [], 'ticks': 0, 'runs': 0, 'nontrivial': 0, 'buckets': {}}
    lo, hi = job['range']
    for i in range(lo, hi):
        st = rng.Streams(rng.derive(job['seed'], job['prop'], i))
        try:
            case = eng.gen(st, i, job)
            res = eng.run(case)
        except Exception:  # noqa: BLE001 - harness error, reported apart
            agg['harness_errors'].append({'index': i, 'tb': traceback.format_exc()[-2000:]})
            continue
        agg['runs'] += 1
        agg['ticks'] += res.get('ticks', 0)
        for k, v in res['counters'].items():
            agg['counters'][k] = agg['counters'].get(k, 0) + v
        agg['digests'].append(res['digest'])
        for bk, bv in (res.get('buckets') or {}).items():
            agg['buckets'].setdefault(bk, [])
            if bv not in agg['buckets'][bk]:
                agg['buckets'][bk].append(bv)
        if res['nontrivial']:
            agg['nontrivial'] += 1
            agg['keys'].append(res['key'])
        if res['violation']:
            if len(agg['violations']) < job.get('max_violations', 40):
                agg['violations'].append({'index': i, 'case': res.get('case_override') or case,
                                          'violation': res['violation'],
                                          'summary': res.get('summary', {}), 'digest': res['digest']})
            agg['counters']['violations'] = agg['counters'].get('violations', 0) + 1
        if len(agg['samples']) < 2 and res['nontrivial']:
            agg['samples'].append(eng.sample(case, res))
    agg['cover'] = eng.teardown(job)
    return agg


def op_exec(job):
    eng = engine_for(job['prop'])
    eng.setup(job)
    out = []
    for case in job['cases']:
        try:
            res = eng.run(case)
            out.append({'violation': res['violation'], 'digest': res['digest'], 'log': res['log'],
                        'summary': res.get('summary', {}), 'counters': res['counters']})
        except Exception:  # noqa: BLE001
            out.append({'harness_error': traceback.format_exc()[-2000:]})
    return {'results': out}


def op_minimize(job):
    eng = engine_for(job['prop'])
    eng.setup(job)
    want = job['class']
    ntests = [0]

    def fails(c):
        ntests[0] += 1
        try:
            r = eng.run(c)
        except Exception:  # noqa: BLE001
            return False
        return bool(r['violation']) and r['violation']['class'] == want

    case = job['case']
    if not fails(case):
        return {'case': case, 'reproduced': False, 'tests': ntests[0]}
    small = eng.minimize(case, fails)
    res = eng.run(small)
    return {'case': small, 'reproduced': True, 'tests': ntests[0], 'violation': res['violation'],
            'digest': res['digest'], 'log': res['log'], 'summary': res.get('summary', {})}


def op_call(job):
    eng = engine_for(job['prop'])
    return getattr(eng, job['func'])(job)


def main():
    faulthandler.enable()
    try:
        import resource
        cap = int(os.environ.get('TSIM_MEM_CAP_MB', '1024')) << 20
        resource.setrlimit(resource.RLIMIT_AS, (cap, cap))   # runaway memory becomes MemoryError, not OOM-kill
    except (ImportError, ValueError, OSError):
        pass
    job = json.loads(sys.stdin.read())
    wall = job.get('wall_limit')
    if wall:
        faulthandler.dump_traceback_later(wall, exit=True)
    from . import texapi
    texapi.assert_repo()
    try:
        res = {'runs': op_runs, 'exec': op_exec, 'minimize': op_minimize, 'call': op_call}[job['op']](job)
        res['world'] = world_info()
        res['ok'] = True
    except Exception:  # noqa: BLE001
        res = {'ok': False, 'tb': traceback.format_exc()[-4000:], 'world': world_info()}
    sys.stdout.write(json.dumps(res))
    sys.stdout.flush()


if __name__ == '__main__':
    main()
