"""Regenerate and execute single runs in-process (debugging aid, not a check)."""
import importlib
import json
import os
import sys

sys.path.insert(0, os.environ.get('TSIM_REPO', '/repo'))
from . import rng  # noqa: E402


def main():
    prop = sys.argv[1].upper()
    seed = int(os.environ.get('VERIF_SEED', 20260926))
    eng = importlib.import_module('tsim.engines.' + prop.lower())
    eng.setup({})
    want = sys.argv[3] if len(sys.argv) > 3 else None
    lo, _, hi = sys.argv[2].partition(':')
    n = 0
    for i in range(int(lo), int(hi or int(lo) + 1)):
        st = rng.Streams(rng.derive(seed, prop, i))
        case = eng.gen(st, i, {'tier': 'quick'})
        res = eng.run(case)
        v = res['violation']
        if want and not (v and want in v['class']):
            continue
        if not want or v:
            n += 1
            print('--- run', i)
            print(json.dumps({k: case[k] for k in case if k != 'wire'}, sort_keys=True)[:600])
            print('wire:', repr(''.join(case['wire']))[:600] if 'wire' in case else '')
            print('summary:', {k: (v2[:400] if isinstance(v2, str) else v2) for k, v2 in res.get('summary', {}).items()})
            print('violation:', v)
            if n >= int(os.environ.get('N', 5)):
                break


main()
