"""Seeded workload generator over the grammar of documented constructs.

Returns the text *and* its syntax tree flattened into annotated tokens, so the
simulator knows token boundaries, where in-flight state exists, and which
closers are real.  It is a workload generator, not an oracle: documents are
admitted by a precondition (parse + exact round trip on the tree under test).
"""

CMD_NAMES = ['foo', 'bar', 'textit', 'emph', 'x', 'cite', 'ref', 'qq',
             # commands the reader has a zero-argument signature for
             'noindent', 'cap', 'cup', 'in', 'notin', 'infty', 'foo', 'x']
PLAIN_CMD_NAMES = ['foo', 'bar', 'textit', 'emph', 'x', 'cite', 'ref', 'qq']
ENV_NAMES = ['e', 'env', 'center', 'quote', 'tabular', 'document', 'e', 'figure*', 'e']
MATH_ENVS = ['equation', 'align', 'align*', 'equation*', 'gather', 'math', 'alignat', 'array', 'displaymath',
             'eqnarray', 'eqnarray*', 'flalign', 'flalign*', 'gather*', 'multline', 'multline*', 'split']
VERB_ENVS = ['verbatim', 'lstlisting', 'Verbatim', 'verbatimtab', 'listing']
LIST_ENVS = ['itemize', 'enumerate', 'description']
WORDS = ['a', 'b', 'hello', 'world', 'x', 'y', 'lorem', 'ipsum', '12', 'z',
         'Tex', 'Soup', 'ab', 'q']
PUNCT = ['.', ',', ';', ':', '!', '?', '-', '+', '=', '/', '*', "'", '"',
         '(', ')', '<', '>', '|', '@', '`']
ESCAPES = ['\\%', '\\$', '\\{', '\\}', '\\&', '\\#', '\\_', '\\ ', '\\~', '\\^']
SIZERS = ['left', 'right', 'big', 'Big', 'bigg', 'Bigg']
DELIMS = ['(', ')', '<', '>', '[', ']', '{', '}', '\\{', '\\}', '.|', '|', '.',
          '\\langle', '\\rangle', '\\lfloor', '\\rfloor', '\\lceil', '\\rceil',
          '\\ulcorner', '\\urcorner', '\\lbrack', '\\rbrack']
FOLLOW = ['', 'x', ' ', '|', '.', '$', '{a}', '\\', '1']

ALL_KINDS = ('text', 'esc', 'linebreak', 'comment', 'cmd', 'env', 'list',
             'group', 'math', 'mathenv', 'verb', 'newcommand', 'sizer')
PLAIN_KINDS = ('text', 'esc', 'linebreak', 'comment', 'cmd', 'env', 'group')


class Tok:
    __slots__ = ('text', 'tag', 'depth', 'region', 'closer', 'owner', 'path', 'absorbable')

    def __init__(self, text, tag, depth, region, closer=None, owner=None, path=()):
        self.path = path        # construct ids from the root to this token's construct
        self.absorbable = False  # a ']' whose loss a later ']' of the same command absorbs
        self.text = text
        self.tag = tag          # text ws esc linebreak comment cmd open close begin end math verb item
        self.depth = depth
        self.region = region    # '' math verb list special comment
        self.closer = closer    # None or '}' ']' 'end'
        self.owner = owner      # id of the construct this closer closes


def mark_absorbable(toks, cinfo, chains):
    """A lost ']' is *absorbed* (no error, legitimately: brackets do not nest in
    TeX or in TexSoup) when a later ']' closes the group instead: a later bracket
    argument of the same command, or - when the command sits directly inside a
    bracket argument of another command - that argument's ']' and then, in turn,
    a later bracket argument of that outer command, and so on upwards.  Brace
    groups and environments stop the climb (their own closer then goes missing)."""
    for t in toks:
        if t.closer != ']' or not t.path:
            continue
        g = t.path[-1]
        path = list(t.path)
        absorbed = False
        for _ in range(60):
            info = cinfo.get(g)
            if not info or info.get('kind') != 'br':
                break
            owner = info['owner']
            chain = chains.get(owner, [])
            pos = chain.index(g) if g in chain else len(chain)
            if any(cinfo.get(x, {}).get('kind') == 'br' for x in chain[pos + 1:]):
                absorbed = True
                break
            if cinfo.get(owner, {}).get('kind') != 'cmd':
                break
            # the construct directly above the owning command
            if owner not in path:
                break
            k = path.index(owner)
            if k == 0:
                break
            g = path[k - 1]
            path = path[:k]
        t.absorbable = absorbed


class Doc:
    def __init__(self, toks, profile, gen=None):
        if gen is not None:
            mark_absorbable(toks, gen.cinfo, gen.chains)
        self.toks = toks
        self.profile = profile
        self.text = ''.join(t.text for t in toks)
        b, pos = [], 0
        for t in toks:
            pos += len(t.text)
            b.append(pos)
        self.bounds = b          # end offset of every token
        self.paths = [list(t.path) for t in toks]

    def closers(self):
        """[(token index, kind)] of real closers outside special regions."""
        return [(i, t.closer) for i, t in enumerate(self.toks)
                if t.closer and t.region == '' and not t.absorbable]

    def hot_sites(self):
        """Token indices where in-flight state exists."""
        out = []
        for i, t in enumerate(self.toks):
            if t.tag in ('open', 'begin', 'math', 'verb', 'close', 'end', 'item') \
                    or t.region or t.text.endswith('\\'):
                out.append(i)
        if self.toks:
            out.append(len(self.toks) - 1)
        return out

    def max_depth(self):
        return max([t.depth for t in self.toks] or [0])


class Gen:
    def __init__(self, rng, kinds=ALL_KINDS, size=12, max_depth=4,
                 shape='flat', ws='normal', names=None, brackets_free=True):
        self.r = rng
        self.kinds = list(kinds)
        self.budget = size
        self.max_depth = max_depth
        self.shape = shape
        self.ws = ws
        self.toks = []
        self.nid = 0
        self.brackets_free = brackets_free   # may '[' / ']' appear in text?
        self.cmds = names or CMD_NAMES
        self.region = ['']
        self.cstack = []
        self.mathdeep = False
        self.cinfo = {}     # construct id -> {'kind': cmd|br|brace, 'owner': id of the command/environment}
        self.chains = {}    # owner id -> its argument constructs in order

    # -- emit helpers --------------------------------------------------
    def emit(self, text, tag, depth, closer=None, owner=None, own=False):
        if text.startswith('$') and self.toks and self.toks[-1].text.endswith('$') \
                and not self.toks[-1].text.endswith('\\$'):
            self.toks.append(Tok(' ', 'ws', depth, self.region[-1], path=tuple(self.cstack) + (self.new_id(),)))
        path = tuple(self.cstack) if (own and self.cstack) else tuple(self.cstack) + (self.new_id(),)
        self.toks.append(Tok(text, tag, depth, self.region[-1], closer, owner, path))

    def open_c(self):
        cid = self.new_id()
        self.cstack.append(cid)
        return cid

    def close_c(self):
        self.cstack.pop()

    def pick(self, seq):
        return seq[self.r.randrange(len(seq))]

    def new_id(self):
        self.nid += 1
        return self.nid

    # -- leaves --------------------------------------------------------
    def text(self, depth, math=False):
        n = self.r.randrange(1, 4)
        parts = []
        for i in range(n):
            w = self.pick(WORDS)
            if self.r.random() < 0.25:
                p = self.pick(PUNCT)
                w += p
            parts.append(w)
        sep = ' '
        s = sep.join(parts)
        if self.r.random() < 0.3:
            s = ' ' + s
        if self.r.random() < 0.3:
            s = s + ' '
        if self.ws == 'lines' and self.r.random() < 0.4:
            s = s + '\n'
        if self.ws == 'blank' and self.r.random() < 0.3:
            s = s + '\n\n'
        self.emit(s, 'text', depth)

    def ws_tok(self, depth):
        self.emit(self.pick([' ', '\n', '  ', '\n  ', '\t', ' \n', '\n\n']), 'ws', depth)

    # -- constructs ----------------------------------------------------
    def body(self, depth, n, kinds=None, math=False):
        for _ in range(n):
            if self.budget <= 0:
                break
            self.construct(depth, kinds, math)

    def construct(self, depth, kinds=None, math=False):
        kinds = kinds or self.kinds
        self.budget -= 1
        k = self.pick(kinds)
        if depth >= self.max_depth and k in ('cmd', 'env', 'list', 'group',
                                             'math', 'mathenv', 'newcommand'):
            k = 'text'
        if math and k in ('math', 'mathenv', 'list', 'verb', 'comment', 'env',
                          'newcommand'):
            k = 'text'
        if not math and k == 'sizer':
            k = 'text'
        getattr(self, 'k_' + k)(depth, math)

    def k_text(self, depth, math=False):
        self.text(depth, math)

    def k_esc(self, depth, math=False):
        self.emit(self.pick(ESCAPES), 'esc', depth)

    def k_linebreak(self, depth, math=False):
        self.emit('\\\\', 'linebreak', depth)

    def k_comment(self, depth, math=False):
        payload = self.pick(['', ' note', ' }', ' \\end{e}', ' $', ' {[', '%%', ' \\begin{x}', ' ]'])
        self.region.append('comment')
        self.emit('%' + payload, 'comment', depth)
        self.region.pop()
        self.emit('\n', 'ws', depth)

    def args(self, depth, nmin=0, nmax=3, math=False):
        """Argument chain of the current command/environment construct."""
        n = self.r.randrange(nmin, nmax + 1)
        bracket_closers = []
        owner = self.cstack[-1] if self.cstack else 0
        chain = self.chains.setdefault(owner, [])
        for _ in range(n):
            br = self.r.random() < 0.3
            o, c, ck = ('[', ']', ']') if br else ('{', '}', '}')
            oid = self.open_c()
            self.cinfo[oid] = {'kind': 'br' if br else 'brace', 'owner': owner}
            chain.append(oid)
            self.emit(o, 'open', depth, own=True)
            inner = self.r.randrange(0, 3)
            kinds = None
            if br:
                # inside an optional argument a bare ']' would end it early
                kinds = [k for k in self.kinds if k not in ('list', 'verb')] or ['text']
            self.body(depth + 1, inner, kinds, math)
            self.emit(c, 'close', depth, closer=ck, owner=oid, own=True)
            if br:
                bracket_closers.append(self.toks[-1])
            self.close_c()
        # absorbable closers are marked once the document is complete (Doc)

    def k_cmd(self, depth, math=False):
        name = self.pick(self.cmds)
        self.cinfo[self.open_c()] = {'kind': 'cmd'}
        self.emit('\\' + name, 'cmd', depth, own=True)
        self.args(depth, 0, 3, math)
        self.close_c()

    def k_group(self, depth, math=False):
        oid = self.open_c()
        self.emit('{', 'open', depth, own=True)
        self.body(depth + 1, self.r.randrange(0, 3), None, math)
        self.emit('}', 'close', depth, closer='}', owner=oid, own=True)
        self.close_c()

    def k_env(self, depth, math=False):
        name = self.pick(ENV_NAMES)
        oid = self.open_c()
        self.emit('\\begin{%s}' % name, 'begin', depth, own=True)
        if self.r.random() < 0.3:
            self.args(depth, 1, 2)
        if self.ws != 'tight' and self.r.random() < 0.5:
            self.emit('\n', 'ws', depth)
        self.body(depth + 1, self.r.randrange(0, 4))
        self.emit('\\end{%s}' % name, 'end', depth, closer='end', owner=oid, own=True)
        self.close_c()

    def k_list(self, depth, math=False):
        name = self.pick(LIST_ENVS)
        oid = self.open_c()
        self.emit('\\begin{%s}' % name, 'begin', depth, own=True)
        self.region.append('list')
        self.emit('\n', 'ws', depth, own=True)
        for _ in range(self.r.randrange(1, 4)):
            self.open_c()
            self.emit('\\item', 'item', depth + 1, own=True)
            if self.r.random() < 0.25:
                self.emit('[', 'open', depth + 1, own=True)
                self.emit(self.pick(WORDS), 'text', depth + 2, own=True)
                self.emit(']', 'close', depth + 1, closer=']', owner=self.new_id(), own=True)
            self.emit(' ', 'ws', depth + 1, own=True)
            kinds = [k for k in self.kinds if k not in ('verb',)] or ['text']
            self.body(depth + 2, self.r.randrange(0, 3), kinds)
            self.emit('\n', 'ws', depth + 1, own=True)
            self.close_c()
        self.region.pop()
        self.emit('\\end{%s}' % name, 'end', depth, closer='end', owner=oid, own=True)
        self.close_c()

    def k_math(self, depth, math=False):
        o, c = self.pick([('$', '$'), ('$$', '$$'), ('\\(', '\\)'), ('\\[', '\\]')])
        oid = self.open_c()
        self.emit(o, 'math', depth, own=True)
        self.region.append('math')
        kinds = [k for k in ('text', 'cmd', 'group', 'esc', 'sizer') if k in self.kinds or k == 'text']
        self.body(depth + 1, self.r.randrange(1, 4), kinds, True)
        self.region.pop()
        self.emit(c, 'math', depth, closer='math', owner=oid, own=True)
        self.close_c()

    def k_mathenv(self, depth, math=False):
        name = self.pick(MATH_ENVS)
        oid = self.open_c()
        self.emit('\\begin{%s}' % name, 'begin', depth, own=True)
        self.region.append('math')
        kinds = [k for k in ('text', 'cmd', 'group', 'linebreak', 'sizer') if k in self.kinds or k == 'text']
        self.body(depth + 1, self.r.randrange(1, 4), kinds, True)
        self.region.pop()
        self.emit('\\end{%s}' % name, 'end', depth, closer='end', owner=oid, own=True)
        self.close_c()

    def k_sizer(self, depth, math=True):
        self.open_c()
        self.emit('\\' + self.pick(SIZERS) + self.pick(DELIMS), 'cmd', depth, own=True)
        f = self.pick(FOLLOW)
        if f and f not in ('$', '\\'):
            self.emit(f, 'text', depth, own=True)
        self.close_c()

    def k_verb(self, depth, math=False):
        name = self.pick(VERB_ENVS)
        oid = self.open_c()
        self.emit('\\begin{%s}' % name, 'begin', depth, own=True)
        self.region.append('verb')
        raw = self.pick(['', 'x', ' $ \\begin{e} { ', '\\item [', '\n a \\\\ b \n',
                         '\\end{e}', '}}', '\\end {verbatim', '$$ \\[', ' % c }\n'])
        self.emit(raw, 'verb', depth + 1, own=True)
        self.region.pop()
        self.emit('\\end{%s}' % name, 'end', depth, closer='end', owner=oid, own=True)
        self.close_c()

    def k_newcommand(self, depth, math=False):
        which = self.pick(['newcommand', 'renewcommand', 'providecommand', 'def'])
        self.region.append('special')
        self.open_c()
        if which == 'def':
            self.emit('\\def', 'cmd', depth, own=True)
            self.emit('\\' + self.pick(self.cmds), 'cmd', depth, own=True)
            self.emit('{', 'open', depth, own=True)
            self.body(depth + 1, self.r.randrange(0, 2), ['text', 'cmd'])
            self.emit('}', 'close', depth, closer='}', owner=self.new_id(), own=True)
        else:
            self.emit('\\' + which, 'cmd', depth, own=True)
            self.emit('{', 'open', depth, own=True)
            self.emit('\\' + self.pick(self.cmds), 'cmd', depth + 1, own=True)
            self.emit('}', 'close', depth, closer='}', owner=self.new_id(), own=True)
            if self.r.random() < 0.5:
                self.emit('[', 'open', depth, own=True)
                self.emit(str(self.r.randrange(1, 4)), 'text', depth + 1, own=True)
                self.emit(']', 'close', depth, closer=']', owner=self.new_id(), own=True)
            self.emit('{', 'open', depth, own=True)
            body = self.pick(['#1', 'x #1 y', '\\begin{e}', '\\end{e}', '\\begin{itemize}', ''])
            if body:
                self.emit(body, 'text', depth + 1, own=True)
            self.emit('}', 'close', depth, closer='}', owner=self.new_id(), own=True)
        self.close_c()
        self.region.pop()

    # -- shapes --------------------------------------------------------
    def deep_narrow(self, depth_target, alternate):
        """Nest to ``depth_target``: groups/commands/envs, or strict
        env <-> command-argument alternation."""
        closers = []
        for d in range(depth_target):
            if alternate:
                kind = 'env' if d % 2 == 0 else 'cmd'
            elif self.mathdeep:
                kind = self.pick(['math', 'math', 'group', 'cmd', 'env', 'bracket'])
            else:
                kind = self.pick(['env', 'cmd', 'group', 'cmd'])
            if kind == 'math':
                # math switches of the same kind do not nest: never repeat the last one
                opts = [m for m in (('$', '$'), ('\\(', '\\)'), ('\\[', '\\]'), ('$$', '$$'))
                        if m[0] != getattr(self, '_lastmath', None)]
                o, c = self.pick(opts)
                self._lastmath = o
                self.open_c()
                self.emit(o, 'math', d, own=True)
                closers.append((c, 'math', 'math', 1))
            elif kind == 'bracket':
                self.open_c()
                self.emit('\\' + self.pick(self.cmds), 'cmd', d, own=True)
                self.open_c()
                self.emit('[', 'open', d, own=True)
                closers.append((']', 'close', ']', 2))
            elif kind == 'env':
                name = self.pick(ENV_NAMES)
                self.open_c()
                self.emit('\\begin{%s}' % name, 'begin', d, own=True)
                closers.append(('\\end{%s}' % name, 'end', 'end', 1))
            elif kind == 'cmd':
                self.open_c()
                self.emit('\\' + self.pick(self.cmds), 'cmd', d, own=True)
                self.open_c()
                self.emit('{', 'open', d, own=True)
                closers.append(('}', 'close', '}', 2))
            else:
                self.open_c()
                self.emit('{', 'open', d, own=True)
                closers.append(('}', 'close', '}', 1))
            if self.r.random() < 0.3:
                self.text(d + 1)
        self.text(depth_target)
        d = depth_target
        for text, tag, ck, npop in reversed(closers):
            d -= 1
            self.emit(text, tag, d, closer=ck, owner=self.new_id(), own=True)
            for _ in range(npop):
                self.close_c()
            if self.r.random() < 0.2:
                self.text(d)


PROFILES = ('flat', 'mixed', 'plain', 'deep', 'alternate', 'twins', 'sizing', 'math')


def generate(rng, profile=None, size=None, restricted=False):
    """Generate one document.  ``restricted``: the C07(b) sub-grammar (no math,
    verbatim, list regions; every bracket is an argument delimiter)."""
    if profile is None:
        profile = PROFILES[rng.randrange(len(PROFILES))]
    if size is None:
        size = rng.randrange(4, 40)
    ws = ('normal', 'lines', 'blank', 'tight')[rng.randrange(4)]
    if restricted:
        kinds = ['text', 'esc', 'linebreak', 'cmd', 'env', 'group']
        if rng.random() < 0.3:
            kinds.append('comment')
        # no zero-argument-signature commands here: their '[..]' is text, not an argument
        g = Gen(rng, kinds, size, rng.randrange(2, 7), ws=ws, names=PLAIN_CMD_NAMES)
        if profile in ('deep', 'alternate'):
            g.deep_narrow(rng.randrange(3, 20), profile == 'alternate')
        else:
            g.body(0, size)
        return Doc(g.toks, 'restricted-' + profile, g)
    if profile == 'flat':
        g = Gen(rng, ALL_KINDS, size, 2, ws=ws)
        g.body(0, size)
    elif profile == 'mixed':
        # swarm: random subset of construct kinds
        ks = [k for k in ALL_KINDS if rng.random() < 0.5] or ['text']
        if 'text' not in ks:
            ks.append('text')
        g = Gen(rng, ks, size, rng.randrange(1, 7), ws=ws)
        g.body(0, size)
    elif profile == 'plain':
        g = Gen(rng, PLAIN_KINDS, size, rng.randrange(2, 6), ws=ws)
        g.body(0, size)
    elif profile == 'deep':
        g = Gen(rng, PLAIN_KINDS, size, 45, ws=ws)
        g.mathdeep = rng.random() < 0.5
        g.deep_narrow(rng.randrange(5, 41), False)
    elif profile == 'alternate':
        g = Gen(rng, PLAIN_KINDS, size, 45, ws=ws)
        g.deep_narrow(rng.randrange(3, 41), True)
    elif profile == 'twins':
        g = Gen(rng, ('text', 'cmd', 'env', 'group', 'list', 'math'), size, 4, ws=ws,
                names=['x', 'foo'])
        g.body(0, size)
    elif profile == 'sizing':
        g = Gen(rng, ('text', 'math', 'sizer', 'cmd'), size, 3, ws=ws)
        g.body(0, size)
    elif profile == 'math':
        g = Gen(rng, ('text', 'math', 'mathenv', 'sizer', 'cmd', 'group', 'esc'), size, 4, ws=ws)
        g.body(0, size)
    else:
        raise AssertionError(profile)
    return Doc(g.toks, profile, g)


def sizing_sweep():
    """Every size prefix x every delimiter x every following symbol."""
    out = []
    for s in SIZERS:
        for d in DELIMS:
            for f in FOLLOW:
                out.append('$\\%s%s%s$' % (s, d, f) if f not in ('$',) else '$\\%s%s$' % (s, d))
    return out


CORPUS_FILES = ['/repo/tests/samples/chikin.tex', '/repo/tests/samples/pancake.tex']

DOC_EXAMPLES = [
    r'\textbf{Hello}\textit{Y}O\textit{U}',
    '\\begin{itemize}\n    \\item Hello\n    \\item Bye\n\\end{itemize}',
    '\n\\section{Hey}\n\\textit{Silly}\n\\textit{Willy}',
    r'\newcommand{reverseconcat}[3]{#3#2#1}',
    r'\begin{equation}1+1\end{equation}',
    '\\begin{document}\n\\title{Chikin}\n\\date{\\today}\n\\section\n[Tales]{Chikin Tales}\n\\end{document}',
    r'\begin{a}\begin{b}\end{a}\end{b}',
    '\\begin{tabular}{c c}\nred lemon & uncommon \\\\ \\n\nlife & common\n\\end{tabular}',
    r'$$\min_w \|w\|_2^2$$ and \(a\) \[b\]',
    r'\def\itemeqn{\item}',
    r'\begin{verbatim}\item[\end{verbatim}',
    # shapes of the findings of DESIGN.md section 12 (F1-F17), kept as seeds for
    # the fault plans: a repair that is undone or half-redone shows up here first
    '\\begin{a}x\\end\n{a}y\\end{a}',
    r'\begin{}\end{}x',
    r'\begin{a}x\end{\a}y\end{a}z',
    r'\begin{1}x\end1y\end{1}z',
    r'\begin{a}x\end\foo{a}y\end{a}',
    r'{\begin{\begin{}}\end\end{}i}\end{*}x }\d ',
    r'\begin{ a }x\end{a}y\begin{b }\end{ b}',
    r'\begin[a]x\end{a}',
    r'\begin{e}\c{\begin{e}\c{\begin{e}\c{x}\end{e}}\end{e}}\end{e}',
    '$\\left.|x\\right.|$ $\\big\\{a\\Bigg\\rangle$',
    'a\x00b\x7fc\\',
    r'\begin{verbatim}',
    r'\begin{itemize}\item a\item[b] c\end{itemize}\end',
    r'\c[a][b]{d}[e\begin{q}]\end{q}',
]


def corpus():
    out = list(DOC_EXAMPLES)
    for p in CORPUS_FILES:
        try:
            with open(p, newline='') as fp:
                out.append(fp.read())
        except OSError:
            pass
    return out
