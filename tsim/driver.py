"""Driver: plans worlds, aggregates, minimises, verifies replay, writes evidence.

Exit codes: 0 property held on everything explored (possibly KNOWN-FINDING
lines); 1 at least one VIOLATION line; 2 harness error / wall-clock backstop.
"""
import concurrent.futures as cf
import importlib
import json
import os
import re
import subprocess
import sys
import time

from . import GUARD, rng

VERIF = os.path.dirname(os.path.dirname(os.path.abspath(__file__)))
PY = sys.executable
OUT = os.path.join(VERIF, 'out')
DEFAULT_SEED = 20260926
NWORKERS = int(os.environ.get('TSIM_WORKERS', '16'))


def repo_path():
    return os.environ.get('TSIM_REPO', '/repo')


def world_env(hashseed):
    env = dict(os.environ)
    env['PYTHONHASHSEED'] = str(hashseed)
    env['PYTHONPATH'] = repo_path() + os.pathsep + VERIF
    env['PYTHONPYCACHEPREFIX'] = os.path.join(OUT, 'pycache')
    env[GUARD] = '1'
    env['TSIM_REPO'] = repo_path()
    env.pop('PYTHONDONTWRITEBYTECODE', None)
    return env


class HarnessError(Exception):
    pass


def run_world(job, hashseed, timeout=1800):
    """Execute one job in a fresh interpreter (a world)."""
    job = dict(job)
    job.setdefault('wall_limit', timeout)
    try:
        p = subprocess.run([PY, '-m', 'tsim.worker'], input=json.dumps(job).encode(),
                           stdout=subprocess.PIPE, stderr=subprocess.PIPE,
                           env=world_env(hashseed), cwd=VERIF, timeout=timeout + 30)
    except subprocess.TimeoutExpired:
        raise HarnessError('world timed out after %ds (job %s %s)' % (timeout, job.get('op'), job.get('range')))
    if p.returncode != 0 or not p.stdout:
        raise HarnessError('world exited %s: %s' % (p.returncode, p.stderr.decode(errors='replace')[-1500:]))
    res = json.loads(p.stdout.decode())
    if not res.get('ok'):
        raise HarnessError('world failed: %s' % res.get('tb'))
    return res


def group_hashseed(seed, prop, g):
    return rng.derive(seed, prop, 'hashseed', g) % 100000


# ---------------------------------------------------------------------------
# known findings
# ---------------------------------------------------------------------------
def load_known():
    p = os.path.join(VERIF, 'known_findings.json')
    try:
        with open(p) as fp:
            return json.load(fp).get('findings', [])
    except OSError:
        return []


def match_known(known, prop, violation, summary):
    for k in known:
        if k.get('status') != 'open' or k.get('property') != prop:
            continue
        if not re.search(k.get('class', ''), violation['class']):
            continue
        ok = True
        for field, rx in k.get('match', {}).items():
            val = summary.get(field, violation.get(field, ''))
            if not isinstance(val, str):
                val = json.dumps(val, sort_keys=True)
            if not re.search(rx, val, re.S):
                ok = False
                break
        if ok:
            return k
    return None


# ---------------------------------------------------------------------------
# default single-world plan
# ---------------------------------------------------------------------------
def plan_and_run(prop, eng, tier, seed, runs, pool, extra=None):
    t = eng.TIERS[tier]
    group = t['group']
    groups = []
    lo = 0
    while lo < runs:
        groups.append((len(groups), lo, min(runs, lo + group)))
        lo += group

    def one(g):
        gi, lo, hi = g
        hs = group_hashseed(seed, prop, gi)
        job = {'op': 'runs', 'prop': prop, 'seed': seed, 'range': [lo, hi], 'tier': tier}
        if extra:
            job.update(extra)
        # wall-clock backstop per world (never a verdict): generous, larger groups get more
        res = run_world(job, hs, timeout=max(1800, 12 * (hi - lo)) if tier == 'thorough' else 1800)
        res['group'] = gi
        res['hashseed'] = hs
        res['range'] = [lo, hi]
        return res

    return list(pool.map(one, groups))


def aggregate(results):
    agg = {'counters': {}, 'keys': set(), 'digests': [], 'violations': [], 'samples': [],
           'harness_errors': [], 'ticks': 0, 'runs': 0, 'nontrivial': 0, 'hashseeds': set(),
           'lines_hit': set(), 'lines_total': 0, 'worlds': 0, 'buckets': {}}
    for r in results:
        agg['worlds'] += 1
        agg['hashseeds'].update(r.get('hashseeds_all', [r['hashseed']]))
        agg['runs'] += r['runs']
        agg['ticks'] += r['ticks']
        agg['nontrivial'] += r['nontrivial']
        for k, v in r['counters'].items():
            agg['counters'][k] = agg['counters'].get(k, 0) + v
        agg['keys'].update(r['keys'])
        agg['digests'].append([r['group'], rng.digest(r['digests'])])
        for v in r['violations']:
            v['hashseed'] = r['hashseed']
            v['group'] = r['group']
            if 'range' in r:
                v['world_range'] = r['range']
            agg['violations'].append(v)
        if len(agg['samples']) < 6:
            agg['samples'].extend(r['samples'][:1])
        for e in r['harness_errors']:
            agg['harness_errors'].append(e)
        for bk, bv in (r.get('buckets') or {}).items():
            agg['buckets'].setdefault(bk, set()).update(bv)
        c = r.get('cover') or {}
        agg['lines_hit'].update(c.get('lines_hit', []))
        agg['lines_total'] = max(agg['lines_total'], c.get('lines_total', 0))
    return agg


# ---------------------------------------------------------------------------
# violations: minimise, verify replay, classify against known findings
# ---------------------------------------------------------------------------
def write_replay(prop, seed, v, case, violation, digest, log, summary):
    d = os.path.join(OUT, 'replays', prop)
    os.makedirs(d, exist_ok=True)
    name = '%s-%s-%s.json' % (seed, v.get('index', 'x'), rng.digest([case, violation['class']])[:8])
    path = os.path.join(d, name)
    with open(path, 'w') as fp:
        json.dump({'property': prop, 'seed': seed, 'index': v.get('index'), 'hashseed': v['hashseed'],
                   'case': case, 'expect': {'class': violation['class'], 'digest': digest},
                   'violation': violation, 'summary': summary, 'log': log,
                   'python': sys.version.split()[0]}, fp, indent=1, sort_keys=True)
    return path


def process_violations(prop, eng, seed, agg, pool, known, per_class=8):
    """Returns (violation_lines, known_lines, harness_errors)."""
    out_viol, out_known, herrs = [], {}, []
    todo = {}
    rest = {}
    for v in sorted(agg['violations'], key=lambda v: (v['violation']['class'],
                                                      len(json.dumps(v['case'])), v['index'])):
        cls = v['violation']['class']
        # findings whose predicate is precise enough to be judged on the raw case
        k = match_known([k for k in known if k.get('prematch')], prop, v['violation'], v.get('summary', {}))
        if k is not None:
            out_known.setdefault(k['id'], [k, 0])[1] += 1
            continue
        if len(todo.setdefault(cls, [])) < per_class:
            todo[cls].append(v)
        else:
            rest[cls] = rest.get(cls, 0) + 1

    def handle(v):
        cls = v['violation']['class']
        mini = getattr(eng, 'driver_minimize', None)
        if mini is not None:
            return mini(v, seed, run_world)
        m = run_world({'op': 'minimize', 'prop': prop, 'case': v['case'], 'class': cls}, v['hashseed'])
        cand = [m['case']] if m.get('reproduced') else []
        cand.append(v['case'])
        for case in cand:
            # replay twice in fresh interpreters: class and digest must agree
            r1 = run_world({'op': 'exec', 'prop': prop, 'cases': [case]}, v['hashseed'])['results'][0]
            r2 = run_world({'op': 'exec', 'prop': prop, 'cases': [case]}, v['hashseed'])['results'][0]
            if r1.get('violation') and r1['violation']['class'] == cls and r1['digest'] == r2.get('digest'):
                return {'case': case, 'violation': r1['violation'], 'digest': r1['digest'],
                        'log': r1['log'], 'summary': r1.get('summary', {}), 'minimized': case is not v['case']}
        # the violation depends on what ran earlier in its world: replay the
        # world from its first run up to and including this one
        if 'world_range' in v:
            pc = {'kind': 'world-prefix', 'seed': seed, 'range': [v['world_range'][0], v['index'] + 1]}
            outs = [replay_prefix(prop, pc, v['hashseed']) for _ in range(2)]
            if all(o and o['violation'] and o['violation']['class'] == cls for o in outs) \
                    and outs[0]['digest'] == outs[1]['digest']:
                o = outs[0]
                return {'case': pc, 'violation': o['violation'], 'digest': o['digest'], 'log': [],
                        'summary': dict(o.get('summary', {}), history='depends on the earlier runs of its world'),
                        'minimized': False}
        return None

    items = [v for vs in todo.values() for v in vs]
    seen_min = set()
    for v, h in zip(items, pool.map(lambda v: _safe(handle, v), items)):
        if isinstance(h, Exception):
            herrs.append('minimisation failed for run %s: %s' % (v['index'], h))
            continue
        if h is None:
            herrs.append('violation %s of run %s did not reproduce in a fresh interpreter '
                         '(hash seed %s)' % (v['violation']['class'], v['index'], v['hashseed']))
            continue
        k = match_known(known, prop, h['violation'], h['summary'])
        if k is not None:
            out_known.setdefault(k['id'], [k, 0])[1] += 1
            continue
        sig = rng.digest([h['case'], h['violation']['class']])
        if sig in seen_min:
            continue
        seen_min.add(sig)
        path = write_replay(prop, seed, v, h['case'], h['violation'], h['digest'], h['log'], h['summary'])
        out_viol.append((h['violation'], path, rest.get(h['violation']['class'], 0)))
    return out_viol, out_known, herrs


def replay_prefix(prop, pc, hashseed):
    """Re-run a world from its first run; return the last run's result."""
    lo, hi = pc['range']
    res = run_world({'op': 'runs', 'prop': prop, 'seed': pc['seed'], 'range': [lo, hi], 'tier': 'quick',
                     'max_violations': 10 ** 6}, hashseed)
    for v in res['violations']:
        if v['index'] == hi - 1:
            return {'violation': v['violation'], 'digest': rng.digest(res['digests']), 'summary': v.get('summary', {})}
    return {'violation': None, 'digest': rng.digest(res['digests'])}


def _safe(f, *a):
    try:
        return f(*a)
    except Exception as e:  # noqa: BLE001
        return e


# ---------------------------------------------------------------------------
# evidence
# ---------------------------------------------------------------------------
def write_evidence(prop, eng, tier, seed, agg, wall, nviol, known_hits, extra_cov=None):
    c = agg['counters']
    fired = {k.split('.', 2)[2]: v for k, v in sorted(c.items()) if k.startswith('fault.fired.')}
    configured = {k.split('.', 2)[2]: v for k, v in sorted(c.items()) if k.startswith('fault.configured.')}
    probes = {k[6:]: v for k, v in sorted(c.items()) if k.startswith('probe.')}
    stuck = [p for p in getattr(eng, 'PROBES', []) if not probes.get(p)]
    cov = {
        'evaluations': agg['runs'],
        'distinct_nontrivial': len(agg['keys']),
        'rule': eng.RULE,
        'samples': agg['samples'][:6],
        'exhaustive': False,
        'runs_per_hour': int(agg['runs'] / wall * 3600) if wall > 0 else 0,
        'seeds': [seed],
        'worlds': agg['worlds'],
        'hash_seeds_used': len(agg['hashseeds']),
        'simulated_time_ticks': agg['ticks'],
        'faults_fired': fired,
        'faults_configured': configured,
        'probes': probes,
        'probes_stuck_at_zero': stuck,
        'counters': {k: v for k, v in sorted(c.items()) if not k.startswith(('fault.', 'probe.', 'grid.'))},
        'grid_cells_reached': len([k for k in c if k.startswith('grid.')]),
        'grid_cells': {k[5:]: v for k, v in sorted(c.items()) if k.startswith('grid.')},
        'distinct_by_bucket': {k: len(v) for k, v in sorted(agg['buckets'].items())},
        'texsoup_line_coverage': {'hit': len(agg['lines_hit']), 'total': agg['lines_total']},
        'real_code': ['every module of the TexSoup package, unmodified, from %s' % repo_path()],
        'stubs': getattr(eng, 'STUBS', ['input reader (SimReader)']),
        'known_findings_observed': {k: n for k, (_, n) in known_hits.items()},
        'batch_digest': rng.digest(sorted(agg['digests'])),
    }
    try:
        with open(os.path.join(VERIF, 'selftest_result.json')) as fp:
            st = json.load(fp)
        cov['determinism_selftest'] = {'all_identical': st.get('all_identical'),
                                       'this_engine': st.get('determinism', {}).get(prop), 'method': st.get('method')}
    except (OSError, ValueError):
        pass
    if extra_cov:
        cov.update(extra_cov)
    ev = {
        'property_id': prop, 'tier': tier, 'seed': seed, 'level': 'exploration',
        'coverage': cov,
        'assumptions': getattr(eng, 'ASSUMPTIONS', []) + [
            'seeded sampling: a clean batch is evidence, not proof',
            'CPython %s; hash seeds pinned per world' % sys.version.split()[0]],
        'wall_s': round(wall, 2),
        'violations': nviol,
    }
    def clean(x):
        # lone surrogates (part of the alphabet) are not valid in strict JSON/UTF-8 consumers
        if isinstance(x, str):
            return x.encode('utf-8', 'backslashreplace').decode('utf-8')
        if isinstance(x, list):
            return [clean(y) for y in x]
        if isinstance(x, dict):
            return {clean(k): clean(v) for k, v in x.items()}
        return x
    ev = clean(ev)
    d = os.path.join(VERIF, 'evidence')
    if os.path.abspath(repo_path()) != '/repo':
        d = os.path.join(OUT, 'evidence-scratch')   # a scratch copy is under test: not evidence
    os.makedirs(d, exist_ok=True)
    with open(os.path.join(d, prop + '.json'), 'w') as fp:
        json.dump(ev, fp, indent=1, sort_keys=True)
    return ev


# ---------------------------------------------------------------------------
# entry points
# ---------------------------------------------------------------------------
def check(prop, tier='quick', seed=None, runs=None, quiet=False):
    t0 = time.time()
    if seed is None:
        seed = int(os.environ.get('VERIF_SEED', DEFAULT_SEED))
    eng = importlib.import_module('tsim.engines.' + prop.lower())
    runs = runs or eng.TIERS[tier]['runs']
    print('tsim check %s tier=%s VERIF_SEED=%d runs=%d repo=%s' % (prop, tier, seed, runs, repo_path()))
    sys.stdout.flush()
    known = load_known()
    herrs = []
    with cf.ThreadPoolExecutor(NWORKERS) as pool:
        try:
            drive = getattr(eng, 'drive', None)
            if drive is not None:
                results = drive(tier, seed, runs, pool, run_world)
            else:
                results = plan_and_run(prop, eng, tier, seed, runs, pool)
        except HarnessError as e:
            print('HARNESS-ERROR %s' % str(e).replace('\n', ' | ')[:1500])
            return 2
        agg = aggregate(results)
        for e in agg['harness_errors'][:5]:
            herrs.append('run %s raised inside the harness: %s' % (e['index'], e['tb'].strip().splitlines()[-1]))
            if not quiet:
                print(e['tb'])
        viols, known_hits, h2 = process_violations(prop, eng, seed, agg, pool, known)
        herrs.extend(h2)
    # vacuity guard: a check whose workload was mostly not admitted has shown nothing
    vac = getattr(eng, 'vacuity', None)
    if vac is not None:
        msg = vac(agg)
        if msg:
            herrs.append('vacuous run: ' + msg)
    wall = time.time() - t0
    write_evidence(prop, eng, tier, seed, agg, wall, len(viols), known_hits,
                   getattr(eng, 'extra_coverage', lambda a: None)(agg))
    c = agg['counters']
    print('runs=%d distinct_nontrivial=%d worlds=%d hashseeds=%d ticks=%d wall=%.1fs (%d runs/h)'
          % (agg['runs'], len(agg['keys']), agg['worlds'], len(agg['hashseeds']), agg['ticks'], wall,
             agg['runs'] / wall * 3600))
    if not quiet:
        print('faults fired: ' + ', '.join('%s=%d' % (k.split('.', 2)[2], v) for k, v in sorted(c.items())
                                           if k.startswith('fault.fired.')))
        print('probes: ' + ', '.join('%s=%d' % (k[6:], v) for k, v in sorted(c.items()) if k.startswith('probe.')))
        for p in getattr(eng, 'PROBES', []):
            if not c.get('probe.' + p):
                print('WARNING probe stuck at zero: %s' % p)
    for kid, (k, n) in sorted(known_hits.items()):
        print('KNOWN-FINDING: property=%s %s [%s, seen %d times]' % (prop, k['what'], kid, n))
    for v, path, more in viols:
        v['detail'] = v['detail'].encode('utf-8', 'backslashreplace').decode('utf-8')
        print('violation class=%s: %s%s' % (v['class'], v['detail'][:300],
                                            ' (+%d more runs of this class)' % more if more else ''))
        print('VIOLATION property=%s replay=%s' % (prop, path))
    for h in herrs[:10]:
        print('HARNESS-ERROR %s' % h.replace('\n', ' | ')[:1500])
    sys.stdout.flush()
    if viols:
        return 1
    if herrs:
        return 2
    print('OK property=%s held on everything explored' % prop)
    return 0


def replay(path):
    with open(path) as fp:
        rep = json.load(fp)
    prop = rep['property']
    eng = importlib.import_module('tsim.engines.' + prop.lower())
    custom = getattr(eng, 'driver_replay', None)
    try:
        if custom is not None:
            r = custom(rep, run_world)
        elif rep['case'].get('kind') == 'world-prefix':
            r = replay_prefix(prop, rep['case'], rep['hashseed'])
        else:
            r = run_world({'op': 'exec', 'prop': prop, 'cases': [rep['case']]}, rep['hashseed'])['results'][0]
    except HarnessError as e:
        print('HARNESS-ERROR %s' % e)
        return 2
    if r.get('harness_error'):
        print('HARNESS-ERROR %s' % r['harness_error'])
        return 2
    v = r.get('violation')
    if v and v['class'] == rep['expect']['class']:
        same = r['digest'] == rep['expect']['digest']
        print('violation class=%s: %s' % (v['class'], v['detail'][:400]))
        print('event-log digest %s (%s)' % (r['digest'], 'identical to recorded' if same else
                                            'DIFFERS from recorded %s' % rep['expect']['digest']))
        print('VIOLATION property=%s replay=%s' % (prop, path))
        return 1
    if v:
        print('a different violation occurs now: class=%s: %s' % (v['class'], v['detail'][:300]))
        print('VIOLATION property=%s replay=%s' % (prop, path))
        return 1
    print('no violation: the recorded case passes on the current tree')
    return 0
