"""Delta debugging over explicit lists (ddmin, complement-first), bounded."""


def ddmin_list(items, test, max_tests=600):
    """Return a sub-list of ``items`` (order kept) for which ``test`` holds,
    1-minimal up to the test budget.  ``test(items)`` must already hold."""
    items = list(items)
    n = 2
    tests = 0
    while len(items) >= 1 and tests < max_tests:
        if len(items) == 1:
            tests += 1
            if test([]):
                return []
            return items
        chunk = max(1, len(items) // n)
        subsets = [items[i:i + chunk] for i in range(0, len(items), chunk)]
        reduced = False
        # try removing each chunk (complement)
        for k in range(len(subsets)):
            comp = [x for j, s in enumerate(subsets) if j != k for x in s]
            tests += 1
            if test(comp):
                items = comp
                n = max(n - 1, 2)
                reduced = True
                break
            if tests >= max_tests:
                break
        if not reduced:
            if chunk == 1:
                break
            n = min(len(items), n * 2)
    return items


def shrink_ints(values, test, max_tests=200):
    """Shrink a list of ints towards zeros while ``test`` holds."""
    values = list(values)
    tests = 0
    for i in range(len(values)):
        if values[i] == 0:
            continue
        for cand in (0, values[i] // 2):
            if cand == values[i]:
                continue
            v2 = values[:i] + [cand] + values[i + 1:]
            tests += 1
            if test(v2):
                values = v2
                break
            if tests >= max_tests:
                return values
    return values
