"""Thin, defensive access to the system under test (real TexSoup code)."""
import ast
import os
import sys

from .stepclock import CLOCK, StepBudgetExceeded

DIAGNOSTICS = ('EOFError', 'TypeError', 'AssertionError')
_pkg_dir = None
_raise_lines = {}


def pkg_dir():
    global _pkg_dir
    if _pkg_dir is None:
        import TexSoup
        _pkg_dir = os.path.dirname(os.path.abspath(TexSoup.__file__))
    return _pkg_dir


def assert_repo():
    """Checks always run /repo's current working tree."""
    d = pkg_dir()
    want = os.environ.get('TSIM_REPO', '/repo')
    if not d.startswith(os.path.abspath(want) + os.sep):
        raise RuntimeError('TexSoup imported from %s, expected under %s' % (d, want))


def _deliberate_lines(filename):
    s = _raise_lines.get(filename)
    if s is None:
        s = set()
        try:
            with open(filename) as fp:
                tree = ast.parse(fp.read())
            for n in ast.walk(tree):
                if isinstance(n, (ast.Raise, ast.Assert)):
                    for ln in range(n.lineno, (n.end_lineno or n.lineno) + 1):
                        s.add(ln)
        except (OSError, SyntaxError):
            pass
        _raise_lines[filename] = s
    return s


def exc_origin(exc):
    """(in_package, deliberate, 'file:line') of the innermost frame."""
    tb = exc.__traceback__
    if tb is None:
        return False, False, '?'
    while tb.tb_next is not None:
        tb = tb.tb_next
    fn = tb.tb_frame.f_code.co_filename
    ln = tb.tb_lineno
    inpkg = os.path.abspath(fn).startswith(pkg_dir() + os.sep)
    delib = inpkg and ln in _deliberate_lines(fn)
    return inpkg, delib, '%s:%d' % (os.path.basename(fn), ln)


class Outcome:
    __slots__ = ('kind', 'exc', 'where', 'deliberate', 'ticks', 'soup', 'msg')

    def __init__(self):
        self.kind = None      # tree | diag | leak | hang
        self.exc = None
        self.where = None
        self.deliberate = None
        self.ticks = 0
        self.soup = None
        self.msg = None

    def brief(self):
        if self.kind == 'tree':
            return 'tree'
        return '%s:%s' % (self.kind, self.exc)


def parse(source, tolerance=0, skip_envs=(), budget=None):
    """Run TexSoup(source, ...) under the step clock and classify the result."""
    from TexSoup import TexSoup
    o = Outcome()
    if CLOCK.installed:
        CLOCK.start(budget)
    try:
        o.soup = TexSoup(source, skip_envs=tuple(skip_envs), tolerance=tolerance)
        o.kind = 'tree'
    except StepBudgetExceeded:
        o.kind = 'hang'
        o.exc = 'StepBudgetExceeded'
    except RecursionError as e:
        o.kind = 'leak'
        o.exc = 'RecursionError'
        o.where = exc_origin(e)[2]
    except Exception as e:  # noqa: BLE001 - classification is the point
        name = type(e).__name__
        inpkg, delib, where = exc_origin(e)
        o.exc = name
        o.where = where
        o.deliberate = delib
        o.msg = str(e)[:120]
        o.kind = 'diag' if name in DIAGNOSTICS else 'leak'
    finally:
        if CLOCK.installed:
            o.ticks = CLOCK.stop()
    return o


SANITY_SRC = '\\a{b}$c$\\begin{e}x\\end{e}'
SANITY_REPR = None
# (source, tolerance, skip_envs): a small fixed battery parsed in the pristine
# world (reference) and again after runs; it covers both tolerance modes, both
# diagnostics, the skip option, special mode, sizing commands and lists, so
# that state left behind by an earlier (aborted) parse shows up
SANITY_CASES = [
    (SANITY_SRC, 0, ()),
    ('\\begin{e}x', 0, ()),
    ('\\begin{e}x', 1, ()),
    ('\\c{a', 0, ()),
    ('\\c{a', 1, ()),
    ('\\begin{q}$\\end{q}', 0, ('q',)),
    ('\\begin{q}x\\end{q}', 0, ()),
    ('\\newcommand{\\x}{\\begin{y}}\\begin{itemize}\\item a\\end{itemize}', 0, ()),
    ('$\\left.|x\\right)$\\section Intro', 0, ()),
]


POISONED = False


_calls = 0


def sanity(full=True):
    """After an aborted parse the library must still be usable.  Only the
    first failure in a world is reported: every later run of a poisoned
    process would fail too, and only the first one is the culprit.
    ``full=False``: the first probe only, and the whole battery every 8th call."""
    global POISONED, _calls
    if POISONED:
        return True, ''
    _calls += 1
    ok, why = _sanity(full or SANITY_REPR is None or _calls % 8 == 0)
    if not ok:
        POISONED = True
    return ok, why


def _observe(src, tol, skip):
    from TexSoup import TexSoup
    try:
        soup = TexSoup(src, skip_envs=skip, tolerance=tol)
        return 'tree:' + repr(soup.expr) + '|' + str(soup)
    except Exception as e:  # noqa: BLE001
        return 'raised:' + type(e).__name__


def _sanity(full=True):
    global SANITY_REPR
    cases = SANITY_CASES if full else SANITY_CASES[:1]
    got = [_observe(*c) for c in cases]
    if SANITY_REPR is None:
        SANITY_REPR = got
        return True, ''
    for c, g, w in zip(cases, got, SANITY_REPR):
        if g != w:
            return False, 'after this run the fixed probe TexSoup(%r, tolerance=%d, skip_envs=%r) gives %s; in the ' \
                          'pristine interpreter it gave %s' % (c[0], c[1], c[2], g[:120], w[:120])
    return True, ''
