"""One integer decides everything.

Every run gets ``run_seed = H(VERIF_SEED / property / index)`` and named
sub-streams are derived by hashing a label into the run seed, so a draw added
to one stream never perturbs another.  Nothing here reads a clock, and nothing
in logging or evidence code draws from these streams.
"""
import hashlib
import random


def derive(seed, *labels):
    s = '/'.join([str(seed)] + [str(x) for x in labels])
    return int.from_bytes(hashlib.sha256(s.encode()).digest()[:8], 'big')


class Streams:
    """Named independent PRNG streams derived from one run seed."""

    def __init__(self, run_seed):
        self.run_seed = run_seed
        self._s = {}

    def __getitem__(self, label):
        r = self._s.get(label)
        if r is None:
            r = self._s[label] = random.Random(derive(self.run_seed, label))
        return r


def digest(obj):
    """Stable short digest of a canonical (JSON-like, ordered) object."""
    import json
    s = json.dumps(obj, sort_keys=True, ensure_ascii=True, separators=(',', ':'))
    return hashlib.sha256(s.encode()).hexdigest()[:16]


def weighted(rng, pairs):
    """pairs: list of (item, weight) in a fixed order."""
    total = sum(w for _, w in pairs)
    x = rng.random() * total
    acc = 0.0
    for item, w in pairs:
        acc += w
        if x < acc:
            return item
    return pairs[-1][0]
