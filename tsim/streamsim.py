"""stream-sim: one client parsing a document delivered through a faulty reader.

Shared by C06 (totality) and C07 (tolerant mode).  A *case* is a literal dict

    {mode, wire, faults, form, skip_envs, recover, base}

and execution is a pure function of (case, TexSoup code, hash seed).  Oracles
are stated over the delivered text D only.
"""
import re

from . import docgen, simreader, texapi
from .rng import digest, weighted

TICK_BASE = 50_000
TICK_PER_CHAR = 20_000

FAULT_KINDS = list(simreader.TEXT_FAULTS)


def tick_budget(n):
    return TICK_BASE + TICK_PER_CHAR * n


# ---------------------------------------------------------------------------
# generation
# ---------------------------------------------------------------------------
TAIL_CONTEXTS = ['', 'a', 'a ', '\\foo', '\\foo{a', '\\foo[a', '$x', '\\[x', '\\begin{e}x', '\\begin{e}x\\end{e}',
                 '\\begin{itemize}\\item a', '\\begin{verbatim}x', '% c', 'a\n', '{', '\\begin{equation}x', '\\left(',
                 '\\newcommand{\\x}{a', '\\section', '\\def\\a']


def g_tail(st, index):
    """Stratified end-of-input sweep: the run index (not the PRNG) walks
    through every ordered pair of alphabet characters - and, beyond that, pairs
    and triples over the whole alphabet - placed at the very end of the input
    after a context that leaves some construct in flight.  Seeded sampling with
    a guaranteed spread: after 961 tail runs every character pair has ended an
    input once."""
    k = index // TAIL_EVERY
    chars = simreader.ALPHABET_CHARS
    full = simreader.ALPHABET
    nc = len(chars)
    r = st['doc']
    phase = k // (nc * nc)
    if phase % 3 == 0:
        syms = [chars[(k // nc) % nc], chars[k % nc]]
    elif phase % 3 == 1:
        syms = [full[(k // len(full)) % len(full)], full[k % len(full)]]
    else:
        syms = [chars[r.randrange(nc)], chars[(k // nc) % nc], chars[k % nc]]
    ctx = TAIL_CONTEXTS[(k // 7 + phase) % len(TAIL_CONTEXTS)]
    if r.random() < 0.25:
        d = docgen.generate(r, size=r.randrange(2, 8))
        ctx = d.text[:r.randrange(len(d.text) + 1)]
    wire = ([ctx] if ctx else []) + syms
    return {'mode': 'tail', 'profile': 'tail', 'plan': 'symbols', 'wire': wire, 'faults': [],
            'form': _form(st), 'skip_envs': [], 'recover': False, 'depth': 0}


TAIL_EVERY = 8


def gen_case(st, prop, index=None, tier='quick'):
    """Draw one case.  ``st``: rng.Streams of the run; ``prop``: 'C06'|'C07'."""
    if index is not None and index % TAIL_EVERY == 3:
        return g_tail(st, index)
    r = st['mode']
    if prop == 'C06':
        mode = weighted(r, [('doc', 42), ('alphabet', 18), ('deep', 10), ('corpus', 4),
                            ('sweep', 6), ('repeat', 8), ('wellformed', 5), ('cause', 7)])
    else:
        mode = weighted(r, [('recover', 45), ('doc', 26), ('alphabet', 12),
                            ('deep', 5), ('corpus', 4), ('repeat', 4), ('verydeep', 4)])
    if mode == 'recover':
        return g_recover(st, nalts=16 if tier == 'thorough' else 3)
    return GENERATORS[mode](st)


def _form(st):
    return simreader.FORMS[st['form'].randrange(len(simreader.FORMS))]


def _skip_envs(st):
    r = st['opts']
    if r.random() < 0.8:
        return []
    return [docgen.ENV_NAMES[r.randrange(len(docgen.ENV_NAMES))]]


def g_doc(st, profile=None, restricted=False):
    d = docgen.generate(st['doc'], profile=profile, restricted=restricted)
    rc = st['chunks']
    plan = ('chars', 'tokens', 'tokens', 'random', 'lines')[rc.randrange(5)]
    wire = simreader.chunk_text(rc, d.text, plan, d.bounds)
    rf = st['faults']
    swarm = [k for k in FAULT_KINDS if rf.random() < 0.6] or ['EOF']
    nf = (0, 1, 1, 1, 2, 2, 3)[rf.randrange(7)]
    sites = None
    if plan == 'tokens':
        sites = d.hot_sites()
    elif plan == 'chars':
        sites = [b - 1 for i, b in enumerate(d.bounds) if i in set(d.hot_sites())]
    faults = simreader.draw_faults(rf, wire, nf, swarm, sites)
    # annotate each fault with the construct at its site (for the coverage grid)
    if plan in ('tokens', 'chars'):
        import bisect
        for f in faults:
            ti = f['at'] if plan == 'tokens' else bisect.bisect_right(d.bounds, f['at'])
            if 0 <= ti < len(d.toks):
                t = d.toks[ti]
                f['site'] = t.tag + ('/' + t.region if t.region else '')
            else:
                f['site'] = 'end'
    return {'mode': 'doc', 'profile': d.profile, 'plan': plan, 'wire': wire,
            'faults': faults, 'form': _form(st), 'skip_envs': _skip_envs(st),
            'recover': False, 'depth': d.max_depth()}


def g_deep(st):
    profile = ('deep', 'deep', 'alternate')[st['doc'].randrange(3)]
    case = dict(g_doc(st, profile=profile), mode='deep')
    rf = st['faults']
    if rf.random() < 0.5 and case['wire']:
        # a prefix of a deeply nested document: everything still open at EOF
        n = len(case['wire'])
        case['faults'] = [{'kind': 'EOF', 'at': rf.randrange(n // 3, n + 1), 'site': 'deep-prefix'}]
    return case


REPEAT_OPENERS = ['{', '[', '$', '\\(', '\\[', '\\begin{e}', '\\item ', '\\item', '\\left(', '\\foo{', '\\begin{itemize}',
                  '\\begin{equation}', '\\x[', '\\section{', '\\newcommand{', '\\begin{', '\\end{']

REPEAT_CLOSERS = {'{': '}', '[': ']', '$': '$', '\\(': '\\)', '\\[': '\\]', '\\begin{e}': '\\end{e}', '\\left(': '\\right)',
                  '\\foo{': '}', '\\begin{itemize}': '\\end{itemize}', '\\begin{equation}': '\\end{equation}',
                  '\\x[': ']', '\\section{': '}', '\\newcommand{': '}', '\\begin{': '}', '\\end{': '}'}


def g_repeat(st):
    """A short unit of alphabet symbols repeated up to the depth bound: the
    classic shape for unbounded re-scanning or backtracking (nesting depth 40)."""
    r = st['doc']
    unit = [simreader.ALPHABET[r.randrange(len(simreader.ALPHABET))] for _ in range(r.randrange(1, 4))]
    if r.random() < 0.5:
        openers = ['{', '[', '$', '\\(', '\\[', '$$', '\\begin{e}', '\\item', '\\left(', '\\foo{', '\\begin{itemize}',
                   '\\begin{equation}', '\\x[']
        unit[r.randrange(len(unit))] = openers[r.randrange(len(openers))]
    k = r.randrange(5, 41)
    if r.random() < 0.35:
        # two openers alternating (optionally with a symbol between): re-reading
        # compounds when one construct's look-ahead runs through the other one
        # (\begin{e}\c{ ..., \item \a{ ...); deep enough for doubling to show
        unit = [REPEAT_OPENERS[r.randrange(len(REPEAT_OPENERS))], REPEAT_OPENERS[r.randrange(len(REPEAT_OPENERS))]]
        if r.random() < 0.3:
            unit.insert(r.randrange(3), simreader.ALPHABET[r.randrange(len(simreader.ALPHABET))])
        k = r.randrange(12, 21)        # two constructs per round: nesting depth 24-40
        if r.random() < 0.5:
            # the same nest, closed: a valid document whose depth is the depth bound
            closers = [REPEAT_CLOSERS.get(u, '') for u in unit]
            wire = unit * k + ['x'] + [c for c in closers[::-1] if c] * k
            return {'mode': 'repeat', 'profile': 'repeat-closed', 'plan': 'symbols', 'wire': wire, 'faults': [],
                    'form': _form(st), 'skip_envs': _skip_envs(st), 'recover': False, 'depth': 2 * k}
    wire = unit * k
    tail = [simreader.ALPHABET[r.randrange(len(simreader.ALPHABET))] for _ in range(r.randrange(0, 3))]
    return {'mode': 'repeat', 'profile': 'repeat', 'plan': 'symbols', 'wire': wire + tail, 'faults': [],
            'form': _form(st), 'skip_envs': _skip_envs(st), 'recover': False, 'depth': k}


def g_alphabet(st):
    r = st['doc']
    n = (0, 1, 1, 2, 2, 2, 3, 3, 3, 4, 4, 5, 6)[r.randrange(13)]
    syms = []
    for _ in range(n):
        if r.random() < 0.6:
            syms.append(simreader.ALPHABET_CHARS[r.randrange(len(simreader.ALPHABET_CHARS))])
        else:
            syms.append(simreader.ALPHABET[r.randrange(len(simreader.ALPHABET))])
    return {'mode': 'alphabet', 'profile': 'alphabet', 'plan': 'symbols', 'wire': syms, 'faults': [],
            'form': _form(st), 'skip_envs': _skip_envs(st), 'recover': False, 'depth': 0}


_corpus = None


def g_corpus(st):
    global _corpus
    if _corpus is None:
        _corpus = docgen.corpus()
    r = st['doc']
    text = _corpus[r.randrange(len(_corpus))]
    if len(text) > 1500:
        a = r.randrange(0, len(text) - 600)
        # cut at line boundaries so the excerpt is still document-like
        a = text.rfind('\n', 0, a) + 1
        text = text[a:a + r.randrange(200, 1200)]
    rc = st['chunks']
    plan = ('chars', 'lines', 'random')[rc.randrange(3)]
    wire = simreader.chunk_text(rc, text, plan)
    rf = st['faults']
    faults = simreader.draw_faults(rf, wire, rf.randrange(0, 3), FAULT_KINDS)
    return {'mode': 'corpus', 'profile': 'corpus', 'plan': plan, 'wire': wire, 'faults': faults,
            'form': _form(st), 'skip_envs': [], 'recover': False, 'depth': 0}


_sweep = None


def g_sweep(st):
    global _sweep
    if _sweep is None:
        _sweep = docgen.sizing_sweep()
    r = st['doc']
    text = _sweep[r.randrange(len(_sweep))]
    wire = list(text)
    rf = st['faults']
    faults = simreader.draw_faults(rf, wire, rf.randrange(0, 2), FAULT_KINDS)
    return {'mode': 'sweep', 'profile': 'sweep', 'plan': 'chars', 'wire': wire, 'faults': faults,
            'form': _form(st), 'skip_envs': [], 'recover': False, 'depth': 0}


def g_verydeep(st):
    """A VALID nest far deeper than C06's bound of 40 (C07 has no depth bound):
    brace groups, command arguments and environments to depth 41-250, so that
    strict succeeds and the two modes can be compared."""
    r = st['doc']
    depth = r.randrange(41, 131)
    opens, closes = [], []
    for d in range(depth):
        k = r.randrange(10)
        if k < 6:
            opens.append('{')
            closes.append('}')
        elif k < 9:
            opens.append('\\' + docgen.PLAIN_CMD_NAMES[r.randrange(len(docgen.PLAIN_CMD_NAMES))] + '{')
            closes.append('}')
        else:
            opens.append('\\begin{e}')
            closes.append('\\end{e}')
        if r.random() < 0.1:
            opens.append('t ')
    wire = opens + ['x'] + closes[::-1]
    return {'mode': 'verydeep', 'profile': 'verydeep', 'plan': 'tokens', 'wire': wire, 'faults': [],
            'form': _form(st), 'skip_envs': [], 'recover': False, 'depth': depth}


def g_wellformed(st):
    """A fault-free document of the restricted sub-grammar (no math, verbatim or
    list regions; every bracket an argument delimiter): it contains nothing a
    diagnostic could be about, so both modes must return a tree."""
    d = docgen.generate(st['doc'], restricted=True,
                        profile=('plain', 'flat', 'deep', 'alternate', 'mixed')[st['doc'].randrange(5)])
    rc = st['chunks']
    plan = ('whole', 'tokens', 'lines', 'random')[rc.randrange(4)]
    wire = simreader.chunk_text(rc, d.text, plan, d.bounds)
    return {'mode': 'wellformed', 'profile': d.profile, 'plan': plan, 'wire': wire, 'faults': [],
            'form': _form(st), 'skip_envs': [], 'recover': False, 'wellformed': True, 'depth': d.max_depth()}


CAUSES = [
    # (snippet, the one diagnostic this construct is for)
    ('$a \\item b$', 'AssertionError'), ('\\(\\item\\)', 'AssertionError'), ('\\[x\\item\\]', 'AssertionError'),
    ('$$\\item$$', 'AssertionError'), ('\\begin{equation}\\item x\\end{equation}', 'AssertionError'),
    ('\\begin{align*}a\\item\\end{align*}', 'AssertionError'),
    ('\\begin x ', 'AssertionError'), ('\\begin\\foo ', 'AssertionError'), ('\\begin[a] ', 'AssertionError'),
    ('$ x', 'EOFError'), ('\\[ x', 'EOFError'), ('\\( x', 'EOFError'), ('$$ x', 'EOFError'),
    ('\\begin{zz} x', 'EOFError'),
]


def g_cause(st):
    """A well-formed document of the restricted sub-grammar with exactly ONE
    construct inserted that a diagnostic is for (an \\item in a math region, a
    \\begin without a name, an unclosed math region or environment).  If a
    diagnostic is raised it must be the one for that cause."""
    r = st['doc']
    d = docgen.generate(r, restricted=True, profile=('plain', 'flat', 'deep', 'mixed')[r.randrange(4)])
    toks = [t.text for t in d.toks]
    snippet, exc = CAUSES[r.randrange(len(CAUSES))]
    # any token boundary that is not inside or directly after a comment
    pos = [j for j in range(len(toks) + 1)
           if (j == len(toks) or d.toks[j].region == '') and not (j > 0 and d.toks[j - 1].tag == 'comment')]
    j = pos[r.randrange(len(pos))] if pos else len(toks)
    wire = toks[:j] + [snippet] + toks[j:]
    return {'mode': 'cause', 'profile': d.profile, 'plan': 'tokens', 'wire': wire, 'faults': [],
            'form': _form(st), 'skip_envs': [], 'recover': False, 'cause': [snippet, exc], 'depth': d.max_depth()}


def g_recover(st, nalts=3):
    """C07(b): restricted sub-grammar, exactly one lost real closer or one
    truncation while a construct is open."""
    d = docgen.generate(st['doc'], restricted=True,
                        profile=('plain', 'plain', 'deep', 'flat')[st['doc'].randrange(4)])
    wire = [t.text for t in d.toks]
    rf = st['faults']
    closers = d.closers()
    opened = [i for i, t in enumerate(d.toks) if t.depth > 0 and i > 0]
    # every real closer of the document and every truncation point with an open
    # construct is a candidate fault; a run tries several of them on the same
    # document (all of them, up to a cap, in the thorough tier)
    c1 = [({'kind': 'LOSS', 'at': i}, 'loss' + kind) for i, kind in closers]
    c2 = [({'kind': 'EOF', 'at': i}, 'eof-open') for i in opened]
    rf.shuffle(c1)
    rf.shuffle(c2)
    k1 = (2 * nalts + 2) // 3          # two thirds lost closers, one third truncations
    cands = c1[:k1] + c2[:max(1, nalts - min(k1, len(c1)))]
    rf.shuffle(cands)
    cands = cands[:nalts]
    faults, what = ([cands[0][0]], cands[0][1]) if cands else ([], 'none')
    alts = [{'faults': [f], 'what': w} for f, w in cands[1:]]
    return {'mode': 'recover', 'profile': d.profile, 'plan': 'tokens', 'wire': wire,
            'paths': d.paths, 'faults': faults, 'form': _form(st), 'skip_envs': [], 'recover': bool(faults),
            'what': what, 'alts': alts, 'depth': d.max_depth()}


GENERATORS = {'doc': g_doc, 'deep': g_deep, 'repeat': g_repeat, 'wellformed': g_wellformed, 'cause': g_cause,
              'verydeep': g_verydeep, 'alphabet': g_alphabet,
              'corpus': g_corpus, 'sweep': g_sweep, 'recover': g_recover}


# ---------------------------------------------------------------------------
# oracles
# ---------------------------------------------------------------------------
def cause_fits(exc, D):
    # ignored (NUL) and invalid (DEL) characters are dropped by the tokenizer:
    # '\\<DEL>begin{}' is an environment opener
    D = D.replace('\x00', '').replace('\x7f', '')
    if exc == 'EOFError':
        return ('\\begin' in D) or ('$' in D) or ('\\[' in D) or ('\\(' in D)
    if exc == 'TypeError':
        return ('{' in D) or ('[' in D)
    if exc == 'AssertionError':
        return ('\\begin' in D) or ('\\item' in D)
    return False


_SIDE = [
    re.compile(r'\\(textbf|label)(?![A-Za-z*])(?!\{)'),
    re.compile(r'\\section(?![A-Za-z*])(?!(\[[^\]\[{}]*\])?\{)'),
    re.compile(r'\\def(?![A-Za-z*])(?!\\[A-Za-z]+\{)'),
]


def c08_side_conditions(D):
    """C08's side conditions: no NUL/DEL; mandatory arguments of the
    fixed-signature commands brace-delimited."""
    if '\x00' in D or '\x7f' in D:
        return False
    for rx in _SIDE:
        if rx.search(D):
            return False
    return True


def env_names_of(soup):
    """Names of named environments present in the returned tree (harness walks
    the expression tree itself; it does not use TexSoup's search)."""
    names = set()
    seen = set()
    stack = [soup.expr]
    while stack:
        e = stack.pop()
        if id(e) in seen:
            continue
        seen.add(id(e))
        cls = type(e).__name__
        if cls == 'TexNamedEnv':
            names.add(str(e.name))
        try:
            kids = list(e.all)
        except Exception:  # noqa: BLE001
            kids = list(getattr(e, '_contents', []))
        for k in kids:
            if hasattr(k, '_contents') and type(k).__name__ != 'TexText':
                stack.append(k)
    return names


class Closers:
    """Which inserted stretches count as closing delimiters at position j of
    the output T: '}', ']' and '\\end{X}' for any X such that '\\begin{X}'
    occurs earlier in T (purely textual: the environment was opened in the text)."""

    def __init__(self, T):
        self.T = T
        self.begins = []
        i = T.find('\\begin{')
        while i != -1 and len(self.begins) < 400:
            self.begins.append(i)
            i = T.find('\\begin{', i + 1)
        self.cache = {}

    def lengths(self, j):
        r = self.cache.get(j)
        if r is not None:
            return r
        T = self.T
        out = []
        c = T[j:j + 1]
        if c in ('}', ']'):
            out.append(1)
        elif T.startswith('\\end{', j):
            found = set()
            for i in self.begins:
                if i >= j:
                    break
                a, b = i + 7, j + 5
                k = 0
                n = len(T)
                while b + k < n:
                    if T[a + k] == '}' and T[b + k] == '}':
                        found.add(5 + k + 1)
                    if a + k >= j or T[a + k] != T[b + k]:
                        break
                    k += 1
                    if k > 5000:
                        break
                # the name is compared stripped: \begin{ a } is closed by \end{a}.
                # Walk the stripped name forward; it ends where the \end side has
                # its '}' and the \begin side has only whitespace before its '}'
                # (no bound on how many braces the name itself contains)
                a2 = a
                while a2 < j and T[a2].isspace():
                    a2 += 1
                k = 0
                while b + k < n and k <= 5000:
                    if T[b + k] == '}' and (k == 0 or not T[b + k - 1].isspace()):
                        m = a2 + k
                        while m < j and T[m].isspace():
                            m += 1
                        if m < j and T[m] == '}' and (m > a2 + k or a2 > a):
                            found.add(5 + k + 1)
                    if a2 + k >= j or T[a2 + k] != T[b + k]:
                        break
                    k += 1
            out.extend(sorted(found, reverse=True))
        self.cache[j] = out
        return out


def align(D, T, allow_insert=True):
    """Is T == D with (a) closers inserted and (b) whitespace runs of D that
    stand directly before '{' or '[' dropped?  Returns (ok, n_inserted, why, at)."""
    if D == T:
        return True, 0, '', None
    nD, nT = len(D), len(T)
    if nT > 40 * nD + 4000:
        # output blown up by repeated closers with huge names: too large to align
        return True, -1, 'output too large to align (skipped)', None
    # droppable[i]: D[i] is whitespace whose run is directly followed by { or [
    droppable = [False] * nD
    i = nD - 1
    while i >= 0:
        if D[i] in ' \t\n\r':
            j = i
            while j >= 0 and D[j] in ' \t\n\r':
                j -= 1
            nxt = D[i + 1] if i + 1 < nD else ''
            if nxt in ('{', '['):
                for k in range(j + 1, i + 1):
                    droppable[k] = True
            i = j
        else:
            i -= 1
    closers = Closers(T)
    frontier = {(0, 0): 0}
    seen = set()
    while frontier:
        nxt = {}
        for (i, j), ins in sorted(frontier.items()):
            if i == nD and j == nT:
                return True, ins, '', None
            if (i, j) in seen:
                continue
            seen.add((i, j))
            if i < nD and j < nT and D[i] == T[j]:
                k = (i + 1, j + 1)
                if k not in nxt or nxt[k] > ins:
                    nxt[k] = ins
            if i < nD and droppable[i]:
                k = (i + 1, j)
                if k not in nxt or nxt[k] > ins:
                    nxt[k] = ins
            if allow_insert and j < nT:
                for ln in closers.lengths(j):
                    k = (i, j + ln)
                    if k not in nxt or nxt[k] > ins + 1:
                        nxt[k] = ins + 1
        frontier = nxt
        if len(seen) > 400_000:
            return True, -1, 'alignment search too large (skipped)', None
    return _diagnose(D, T, closers if allow_insert else None, droppable)


def _diagnose(D, T, closers, droppable):
    """Cheapest explanation of T from D when no exact alignment exists:
    matches, closer insertions and droppable whitespace are free; a lost
    character of D or an invented character of T costs 1 (0-1 BFS)."""
    from collections import deque
    nD, nT = len(D), len(T)
    dist = {(0, 0): (0, None)}
    dq = deque([(0, 0)])
    done = set()
    end = None
    while dq:
        st = dq.popleft()
        if st in done:
            continue
        done.add(st)
        if len(done) > 250_000:
            break
        i, j = st
        c = dist[st][0]
        if i == nD and j == nT:
            end = st
            break
        moves = []
        if i < nD and j < nT and D[i] == T[j]:
            moves.append(((i + 1, j + 1), 0, None))
        if i < nD and droppable[i]:
            moves.append(((i + 1, j), 0, None))
        if j < nT and closers is not None:
            for ln in closers.lengths(j):
                moves.append(((i, j + ln), 0, None))
        if i < nD:
            moves.append(((i + 1, j), 1, ('lost', i, j)))
        if j < nT:
            moves.append(((i, j + 1), 1, ('invented', i, j)))
        for nxt, w, tag in moves:
            nc = c + w
            if nxt not in dist or dist[nxt][0] > nc:
                dist[nxt] = (nc, (st, tag))
                if w == 0:
                    dq.appendleft(nxt)
                else:
                    dq.append(nxt)
    if end is None:
        # undecided within the search budget: never an alarm (counted as skipped)
        return True, -1, 'alignment search too large (skipped)', None
    edits = []
    st = end
    while dist[st][1] is not None:
        prev, tag = dist[st][1]
        if tag is not None:
            edits.append(tag)
        st = prev
    edits.reverse()
    lost = [e for e in edits if e[0] == 'lost']
    inv = [e for e in edits if e[0] == 'invented']
    why = 'lost-characters' if lost and not inv else 'invented-characters' if inv and not lost \
        else 'altered-characters'
    first = edits[0]
    i, j = first[1], first[2]
    return False, 0, '%s (%d lost, %d invented; first at D[%d]=%r T[%d]=%r)' % (
        why, len(lost), len(inv), i, D[i:i + 12], j, T[j:j + 12]), (i, j)


# ---------------------------------------------------------------------------
# execution
# ---------------------------------------------------------------------------
def _c07_verdict(case, outs, D, budget, count, extra_summary):
    v = None
    s0, s1 = outs[0], outs[1]
    hang = s0.kind == 'hang' or s1.kind == 'hang'
    if s0.kind == 'tree' and not hang:
        count('c07.a.evaluated')
        if s1.kind != 'tree':
            v = {'class': 'tolerant-differs', 'detail': 'strict returns a tree, tolerant: %s'
                 % s1.brief()}
        else:
            r0, r1 = repr(s0.soup.expr), repr(s1.soup.expr)
            t0, t1 = str(s0.soup), str(s1.soup)
            if r0 != r1 or t0 != t1:
                v = {'class': 'tolerant-differs',
                     'detail': 'strict and tolerant trees differ: %r vs %r' % (t0[:80], t1[:80])}
    if v is None and case.get('recover') and not hang:
        # precondition: the intact document parses strictly and round-trips
        base = ''.join(case['wire'])
        b = texapi.parse(base, tolerance=0, budget=tick_budget(len(base)))

        if b.kind == 'tree' and str(b.soup) == base and D != base:
            count('c07.b.evaluated')
            count('c07.b.' + case.get('what', '?'))
            if s0.kind == 'tree':
                v = {'class': 'strict-accepts-broken',
                     'detail': 'document that lost a closer (%s) is accepted by strict parsing'
                               % case.get('what')}
            elif s1.kind != 'tree':
                v = {'class': 'tolerant-fails',
                     'detail': 'tolerant parsing of a document that lost one closer (%s): %s %s'
                               % (case.get('what'), s1.brief(), s1.msg)}
            if s0.kind != 'tree' and s1.kind == 'tree':
                count('probe.strict-error-and-tolerant-tree')
        else:
            count('precondition_unmet')
    if v is None and s1.kind == 'tree' and not hang:
        if c08_side_conditions(D):
            count('c07.c.evaluated')
            T = str(s1.soup)
            ok, nins, why, at = align(D, T, allow_insert=(s0.kind != 'tree'))
            if not ok:
                cls = why.split(' ')[0]
                extra_summary.update({'D_at': D[at[0]:at[0] + 1], 'D_before': D[:at[0]],
                                      'T_at': T[at[1]:at[1] + 12]})
                v = {'class': cls, 'detail': 'tolerant output is not the input plus closers: '
                     + why + (' (strict parse succeeded: no insertion allowed)'
                              if s0.kind == 'tree' else '')}
            else:
                if nins >= 2:
                    count('probe.inserted>=2')
                if nins == 1:
                    count('probe.inserted==1')
                if nins == -1:
                    count('c07.c.search-too-large')
        else:
            count('c07.c.side-condition-skip')
    return v



def execute(case, props=('C06', 'C07')):
    """Run one case; a recover case may carry alternative single faults on the
    same document, which are executed in turn until one violates."""
    res = execute_one(case, props)
    alts = case.get('alts') or []
    if not alts or any(res['verdicts'].get(p) for p in props):
        return res
    logs = list(res['log'])
    for alt in alts:
        sub = dict(case, faults=alt['faults'], what=alt['what'], alts=[])
        r2 = execute_one(sub, props)
        logs.extend(r2['log'])
        for k, v in r2['counters'].items():
            if k.startswith(('mode.', 'form.')):
                continue
            res['counters'][k] = res['counters'].get(k, 0) + v
        res['ticks'] += r2['ticks']
        if any(r2['verdicts'].get(p) for p in props):
            r2['counters'] = res['counters']
            r2['ticks'] = res['ticks']
            r2['log'] = logs
            r2['digest'] = digest(logs)
            r2['case_override'] = sub
            return r2
    res['log'] = logs
    res['digest'] = digest(logs)
    return res


def execute_one(case, props=('C06', 'C07')):
    """Run one case.  Returns dict with verdicts per property, an event log,
    counters and the distinctness key."""
    delivered, applied = simreader.apply_faults(case['wire'], case.get('faults', []))
    D = ''.join(delivered)
    log = [('deliver', case['form'], len(delivered), digest(D))]
    counters = {}

    def count(k, n=1):
        counters[k] = counters.get(k, 0) + n

    for f in applied:
        count('fault.fired.' + f['kind'])
    for f in case.get('faults', []):
        count('fault.configured.' + f['kind'])
    count('mode.' + case['mode'])
    count('form.' + case['form'])

    budget = tick_budget(len(D))
    outs = {}
    ticks = 0
    for t in (0, 1):
        rd = simreader.SimReader(delivered, case['form'])
        o = texapi.parse(rd.source(), tolerance=t, skip_envs=case.get('skip_envs', ()),
                         budget=budget)
        outs[t] = o
        ticks += o.ticks
        s = None
        if o.kind == 'tree':
            try:
                s = str(o.soup)
            except MemoryError:
                s = None
                o.kind = 'leak'
                o.exc = 'MemoryError'
            except Exception as e:  # noqa: BLE001
                s = None
                o.kind = 'leak'
                o.exc = 'str:' + type(e).__name__
        log.append(('parse', t, o.kind, o.exc, o.ticks, digest(s) if s is not None else None))
        count('outcome.t%d.%s' % (t, o.brief()))
        if rd.form in ('gen', 'filelike') and not rd.exhausted and o.kind == 'tree':
            count('reader.not_drained')

    for f in applied:
        if 'site' in f:
            for t in (0, 1):
                count('grid.%s.%s.t%d.%s' % (f['kind'], f['site'], t, outs[t].kind))
    buckets = {}
    if case['mode'] == 'tail':
        buckets['tail-endings-%d-symbols' % min(len(case['wire']), 3)] = digest(case['wire'][-3:] if len(case['wire']) > 2 else case['wire'][-2:])
    if case['mode'] == 'alphabet' and len(case['wire']) <= 4:
        buckets['alphabet-symbols-%d' % len(case['wire'])] = digest(case['wire'])
    verdicts = {}
    extra_summary = {}
    # ---------------- C06 ----------------
    if 'C06' in props:
        v = None
        for t in (0, 1):
            o = outs[t]
            if o.kind == 'leak' and o.exc == 'MemoryError':
                v = {'class': 'resource-exhaustion:memory', 'detail': 'tolerance=%d exhausted the %s MiB memory cap '
                     'on %d chars (a practical hang)' % (t, __import__('os').environ.get('TSIM_MEM_CAP_MB', '1024'), len(D)),
                     'tolerance': t}
            elif o.kind == 'leak':
                v = {'class': 'leak:%s@%s' % (o.exc, (o.where or '?').split(':')[0]), 'detail': 'tolerance=%d raised %s at %s: %s'
                     % (t, o.exc, o.where, o.msg), 'tolerance': t}
            elif o.kind == 'hang':
                v = {'class': 'hang', 'detail': 'tolerance=%d exceeded %d ticks on %d chars'
                     % (t, budget, len(D)), 'tolerance': t}
            elif o.kind == 'diag':
                if case.get('wellformed') and not applied:
                    v = {'class': 'diagnostic-on-well-formed:%s' % o.exc,
                         'detail': 'tolerance=%d raised %s (%s) on a fault-free document of the restricted grammar, '
                                   'which contains nothing this diagnostic could be about' % (t, o.exc, o.msg),
                         'tolerance': t}
                elif case.get('cause') and not applied and o.exc != case['cause'][1]:
                    v = {'class': 'wrong-diagnostic-for-cause:%s' % o.exc,
                         'detail': 'tolerance=%d raised %s (%s); the only malformed construct of the document is %r, '
                                   'which %s is for' % (t, o.exc, o.msg, case['cause'][0], case['cause'][1]),
                         'tolerance': t}
                elif not cause_fits(o.exc, D):
                    v = {'class': 'wrong-diagnostic:%s' % o.exc,
                         'detail': 'tolerance=%d raised %s (%s) but the input has no construct '
                                   'that this diagnostic is for' % (t, o.exc, o.msg), 'tolerance': t}
                elif not o.deliberate:
                    v = {'class': 'undeliberate-diagnostic:%s' % o.exc,
                         'detail': 'tolerance=%d: %s escaped from %s, which is not a raise/assert '
                                   'statement of the package' % (t, o.exc, o.where), 'tolerance': t}
            if v:
                break
        if v is None:
            ok, why = texapi.sanity(full=any(outs[t].kind != 'tree' for t in (0, 1)))
            if not ok:
                v = {'class': 'poisoned-after-abort' if any(outs[t].kind != 'tree' for t in (0, 1))
                     else 'poisoned-process', 'detail': why}
        verdicts['C06'] = v
        if case.get('depth', 0) >= 30:
            count('probe.depth>=30')
        if D.endswith('\\') and not D.endswith('\\\\'):
            count('probe.eof-after-backslash')
        if D[-1:] in ('\x00', '\x7f'):
            count('probe.nul-del-last')

    # ---------------- C07 ----------------
    if 'C07' in props:
        try:
            verdicts['C07'] = _c07_verdict(case, outs, D, budget, count, extra_summary)
        except RecursionError:
            # printing a very deep tree exhausted the interpreter stack inside the harness
            count('c07.recursion-skip')
            verdicts['C07'] = None

    nontrivial = bool(applied) or case['mode'] in ('alphabet', 'repeat', 'tail', 'wellformed', 'cause', 'verydeep')
    return {'verdicts': verdicts, 'log': log, 'digest': digest(log), 'counters': counters,
            'ticks': ticks, 'key': digest([D, case.get('skip_envs', [])]),
            'nontrivial': nontrivial, 'D': D, 'extra_summary': extra_summary, 'buckets': buckets,
            'outcomes': [outs[0].brief(), outs[1].brief()]}


# ---------------------------------------------------------------------------
# minimisation
# ---------------------------------------------------------------------------
def minimize(case, fails, slow=False):
    """Shrink while ``fails(candidate)`` (same violation class) holds."""
    from .minimize import ddmin_list as _dd
    budget = 14 if slow else 600

    def ddmin_list(items, test):
        return _dd(items, test, max_tests=budget)
    cur = dict(case)
    # 1. fewer faults
    if cur.get('faults'):
        cur['faults'] = ddmin_list(cur['faults'], lambda fl: fails(dict(cur, faults=fl)))
    # 2. simplest form
    for form in ('str', 'list'):
        if cur['form'] != form and fails(dict(cur, form=form)):
            cur['form'] = form
            break
    if cur.get('skip_envs') and fails(dict(cur, skip_envs=[])):
        cur['skip_envs'] = []
    if cur.get('cause') or cur.get('wellformed'):
        # keep the inserted construct intact and the rest a token sequence of the
        # generator: only whole chunks are removed (a shrunk snippet could turn
        # into a different, legitimate cause)
        snippet = cur['cause'][0] if cur.get('cause') else None

        def test(w):
            if snippet is not None and snippet not in w:
                return False
            return fails(dict(cur, wire=w))
        cur['wire'] = ddmin_list(cur['wire'], test)
        return cur
    if cur.get('recover'):
        # Structural shrinking only: remove whole constructs (a leaf token or an
        # opener..closer unit of the generator's syntax tree) that do not
        # contain the faulted token, so the intact document stays inside the
        # restricted grammar and the lost token stays a real closer.
        if not cur.get('faults') or 'paths' not in cur:
            return cur
        changed = True
        while changed:
            changed = False
            at = cur['faults'][0]['at']
            paths = cur['paths']
            units = {}
            for i, pth in enumerate(paths):
                for u in pth:
                    units.setdefault(u, []).append(i)
            order = sorted(units, key=lambda u: (-len(units[u]), u))
            for u in order:
                idx = units[u]
                if at in idx and cur['faults'][0]['kind'] != 'EOF':
                    continue
                if cur['faults'][0]['kind'] == 'EOF' and idx[0] <= at <= idx[-1]:
                    continue
                drop = set(idx)
                keep = [i for i in range(len(paths)) if i not in drop]
                nat = sum(1 for i in keep if i < at)
                cand = dict(cur, wire=[cur['wire'][i] for i in keep],
                            paths=[paths[i] for i in keep],
                            faults=[dict(cur['faults'][0], at=nat)])
                if fails(cand):
                    cur = cand
                    changed = True
                    break
        return cur
    # 3. fold the faults into the wire and shrink the delivered text directly
    delivered, applied = simreader.apply_faults(cur['wire'], cur.get('faults', []))
    trace = list(applied)
    cand = dict(cur, wire=delivered, faults=[], fault_trace=trace)
    if fails(cand):
        cur = cand
        cur['wire'] = ddmin_list(cur['wire'], lambda w: fails(dict(cur, wire=w)))
        chars = list(''.join(cur['wire']))
        if len(chars) <= 4000:
            chars = ddmin_list(chars, lambda w: fails(dict(cur, wire=[''.join(w)])))
            cur['wire'] = [''.join(chars)]
    return cur
