"""Determinism and sensitivity self-tests (not a registered check).

Determinism: for every engine the same seeds are executed twice, once spread
over 16 worker threads and once over 3, with the same per-world hash seeds; the
per-world digests of the canonical event logs must be identical.  Then once
more with the harness process itself under another PYTHONHASHSEED (worlds keep
theirs), proving the harness leaks no hash order of its own into decisions.

Sensitivity (``selftest sensitivity``): every patch under /verif/seeded/*/ is
applied to a scratch copy of /repo outside /repo and /verif; the quick check of
the property it breaks must report a violation whose replay file reproduces,
and must pass on the unpatched copy.
"""
import concurrent.futures as cf
import importlib
import json
import os
import shutil
import subprocess
import sys
import tempfile
import time

from . import driver

ENGINES = ['C06', 'C07', 'C15', 'C17', 'C18', 'C20']
QUICK_RUNS = {'C06': 300, 'C07': 300, 'C15': 200, 'C17': 60, 'C18': 2000, 'C20': 2000}
FULL_RUNS = {'C06': 4000, 'C07': 4000, 'C15': 3000, 'C17': 600, 'C18': 60000, 'C20': 60000}


def available():
    out = []
    for p in ENGINES:
        try:
            importlib.import_module('tsim.engines.' + p.lower())
            out.append(p)
        except ImportError:
            pass
    return out


def batch(prop, runs, seed, workers, group=None):
    eng = importlib.import_module('tsim.engines.' + prop.lower())
    saved = dict(eng.TIERS['quick'])
    if group:
        eng.TIERS['quick'] = dict(saved, group=group)
    try:
        with cf.ThreadPoolExecutor(workers) as pool:
            drive = getattr(eng, 'drive', None)
            if drive is not None:
                results = drive('quick', seed, runs, pool, driver.run_world)
            else:
                results = driver.plan_and_run(prop, eng, 'quick', seed, runs, pool)
    finally:
        eng.TIERS['quick'] = saved
    agg = driver.aggregate(results)
    return {str(g): d for g, d in sorted(agg['digests'])}, agg['runs']


def determinism(props, runs_table, seed=777):
    ok = True
    report = {}
    for prop in props:
        runs = runs_table[prop]
        group = max(1, runs // 8)
        t0 = time.time()
        a, n = batch(prop, runs, seed, 16, group)
        b, _ = batch(prop, runs, seed, 3, group)
        env = dict(os.environ, PYTHONHASHSEED='4242')
        p = subprocess.run([sys.executable, '-m', 'tsim.selftest', 'child', prop, str(runs), str(seed), str(group)],
                           stdout=subprocess.PIPE, env=env, cwd=driver.VERIF)
        try:
            c = json.loads(p.stdout.decode())
        except ValueError:
            c = {'error': p.stdout.decode()[-300:]}
        same = a == b == c
        report[prop] = {'runs': n, 'worlds': len(a), 'identical': same, 'wall_s': round(time.time() - t0, 1)}
        print('determinism %s: %d runs in %d worlds x3 executions (16 workers, 3 workers, harness under '
              'PYTHONHASHSEED=4242): %s' % (prop, n, len(a), 'identical' if same else 'DIVERGED'))
        if not same:
            ok = False
            for g in sorted(set(a) | set(b) | set(c)):
                if not (a.get(g) == b.get(g) == c.get(g)):
                    print('  first divergence in world %s: %s / %s / %s' % (g, a.get(g), b.get(g), c.get(g)))
                    break
    return ok, report


def sensitivity(only=None):
    seeded = os.path.join(driver.VERIF, 'seeded')
    if not os.path.isdir(seeded):
        print('no seeded patches')
        return True, {}
    ok = True
    report = {}
    for name in sorted(os.listdir(seeded)):
        d = os.path.join(seeded, name)
        meta_p = os.path.join(d, 'meta.json')
        if not os.path.isfile(meta_p) or (only and name not in only):
            continue
        with open(meta_p) as fp:
            meta = json.load(fp)
        scratch = tempfile.mkdtemp(prefix='tsim-sens-')
        try:
            subprocess.run(['git', '-C', '/repo', 'archive', 'HEAD', '-o', os.path.join(scratch, 'r.tar')], check=True)
            subprocess.run(['tar', '-xf', os.path.join(scratch, 'r.tar'), '-C', scratch], check=True)
            os.remove(os.path.join(scratch, 'r.tar'))
            p = subprocess.run(['patch', '-p1', '-s', '-d', scratch, '-i', os.path.join(d, 'patch.diff')],
                               stdout=subprocess.PIPE, stderr=subprocess.STDOUT)
            if p.returncode != 0:
                print('sensitivity %s: patch does not apply: %s' % (name, p.stdout.decode()[-200:]))
                ok = False
                continue
            res = {}
            for prop in meta['caught_by'] if 'caught_by' in meta else [meta['property']]:
                env = dict(os.environ, TSIM_REPO=scratch)
                q = subprocess.run([sys.executable, '-m', 'tsim', 'check', prop, '--quiet'] +
                                   (['--runs', str(meta['runs'])] if meta.get('runs') else []),
                                   stdout=subprocess.PIPE, stderr=subprocess.STDOUT, env=env, cwd=driver.VERIF)
                out = q.stdout.decode()
                caught = q.returncode == 1 and 'VIOLATION property=%s' % prop in out
                res[prop] = caught
                print('sensitivity %s: %s %s' % (name, prop, 'caught' if caught else 'MISSED (exit %d)' % q.returncode))
                if not caught:
                    ok = False
            report[name] = res
            record_sensitivity({name: res})
        finally:
            shutil.rmtree(scratch, ignore_errors=True)
    return ok, report


def _git_head(path):
    p = subprocess.run(['git', '-C', path, 'rev-parse', '--short', 'HEAD'], stdout=subprocess.PIPE)
    return p.stdout.decode().strip()


def record_sensitivity(report):
    """Merge results into /verif/sensitivity_result.json (one entry per seeded
    change and check, stamped with the /verif and /repo commits it ran at)."""
    path = os.path.join(driver.VERIF, 'sensitivity_result.json')
    try:
        with open(path) as fp:
            doc = json.load(fp)
        if not isinstance(doc.get('runs'), list):
            doc = {}
    except (OSError, ValueError):
        doc = {}
    runs = {}
    for r in doc.get('runs', []):
        r.setdefault('commit_of_verif', doc.get('commit_of_verif', '?'))
        r.setdefault('repo_head', doc.get('repo_head', '?'))
        runs[(r['seeded'], r['check'])] = r
    vh, rh = _git_head(driver.VERIF), _git_head('/repo')
    for name, res in report.items():
        for prop, caught in res.items():
            runs[(name, prop)] = {'seeded': name, 'check': prop, 'result': 'caught' if caught else 'MISSED',
                                  'commit_of_verif': vh, 'repo_head': rh}
    active = set(n for n in os.listdir(os.path.join(driver.VERIF, 'seeded'))
                 if os.path.isfile(os.path.join(driver.VERIF, 'seeded', n, 'meta.json')))
    rows = [runs[k] for k in sorted(runs) if k[0] in active]
    out = {'tier': 'quick', 'seed': int(os.environ.get('VERIF_SEED', driver.DEFAULT_SEED)),
           'seeded_changes': len(set(r['seeded'] for r in rows)), 'check_runs': len(rows),
           'all_caught': all(r['result'] == 'caught' for r in rows),
           'written_by': 'python -m tsim selftest sensitivity (entries are merged per seeded change; each carries the '
                         'commits it ran at)',
           'runs': rows}
    with open(path, 'w') as fp:
        json.dump(out, fp, indent=1, sort_keys=True)
        fp.write('\n')


def main(args):
    what = list(getattr(args, 'what', []) or [])
    props = [p for p in available() if not what or p in what or what == ['sensitivity']]
    if what and what[0] == 'sensitivity':
        ok, rep = sensitivity(what[1:] or None)
        return 0 if ok else 1
    ok, rep = determinism(props, QUICK_RUNS if args.quick else FULL_RUNS)
    # the quick variant (run by setup_cmd) reports under out/; the full one is
    # kept as /verif/selftest_result.json and quoted in every evidence file
    out = os.path.join(driver.OUT, 'selftest.json') if args.quick else os.path.join(driver.VERIF, 'selftest_result.json')
    os.makedirs(driver.OUT, exist_ok=True)
    with open(out, 'w') as fp:
        json.dump({'determinism': rep, 'quick': bool(args.quick), 'all_identical': ok,
                   'method': 'same seeds executed 3 times: 16 worker threads, 3 worker threads, and with the harness '
                             'process under PYTHONHASHSEED=4242; per-world digests of the canonical event logs compared'},
                  fp, indent=1, sort_keys=True)
    print('selftest %s' % ('OK' if ok else 'FAILED'))
    return 0 if ok else 1


if __name__ == '__main__':
    if len(sys.argv) > 1 and sys.argv[1] == 'child':
        prop, runs, seed, group = sys.argv[2], int(sys.argv[3]), int(sys.argv[4]), int(sys.argv[5])
        d, _ = batch(prop, runs, seed, 8, group)
        sys.stdout.write(json.dumps(d))
