"""The reader seam: the only I/O surface TexSoup has.

A *wire* is a list of chunks (strings).  A fault plan is a list of literal
dicts ``{kind, at, ...}`` addressed by index into the original wire.  Applying
a plan is a pure function (no PRNG); the PRNG is only used when a plan is
*drawn* (see ``draw_faults``).  The delivered sequence is what every oracle is
stated over.

Fault kinds: EOF LOSS DUP SWAP FLIP JUNK (change the delivered text), IOERR
(reader raises OSError at a chunk), YIELD (not a fault: a scheduling point).
"""
import io

FORMS = ('str', 'list', 'tuple', 'gen', 'filelike', 'stringio', 'lines')
FILE_FORMS = FORMS + ('realfile',)
_SCRATCH = None
TEXT_FAULTS = ('EOF', 'LOSS', 'DUP', 'SWAP', 'FLIP', 'JUNK')

# One representative per character category and per token kind, plus the
# multi-character names the tokenizer / reader treat specially.  Hard-coded in
# the harness; NOT imported from TexSoup.
ALPHABET_CHARS = [
    '\\', '{', '}', '$', '&', '\n', '\r', '#', '^', '_', '\x00', ' ', '\t',
    'a', 'Z', '1', '.', '|', '*', '~', '%', '\x7f', '[', ']', '(', ')', ',',
    '<', '>', 'é', '\U0001F600',
    # beyond ASCII: one representative per kind of Unicode code point a category
    # table may or may not know about
    '\u00a0',      # no-break space (Zs)
    '\u2028',      # line separator (Zl)
    '\u200d',      # zero width joiner (Cf)
    '\u0301',      # combining acute accent (Mn)
    '\u4e2d',      # CJK letter (Lo)
    '\u0436',      # Cyrillic letter (Ll)
    '\ue000',      # private use (Co)
    '\u0378',      # unassigned (Cn)
    '\uffff',      # noncharacter (Cn)
    '\U0010ffff',  # last code point (Cn)
    '\ud800',      # lone surrogate (Cs)
    '\ufeff',      # byte order mark / zero width no-break space (Cf)
]
ALPHABET_NAMES = [
    'begin', 'end', 'item', 'verbatim', 'lstlisting', 'left', 'right', 'big',
    'Bigg', 'def', 'section', 'textbf', 'label', 'newcommand',
    'renewcommand', 'providecommand', 'equation', 'align*', 'itemize', 'math',
    'displaymath', 'cap', 'infty', 'noindent', 'foo', 'e',
]
ALPHABET_SNIPPETS = [
    '\\begin{', '\\end{', '\\begin{e}', '\\end{e}', '\\item', '\\[', '\\]',
    '\\(', '\\)', '$$', '\\\\', '\\%', '\\{', '\\}', '\\left(', '\\right.',
    '\\begin{verbatim}', '\\end{verbatim}', '\\begin{equation}',
    '\\end{equation}', '\\begin{itemize}', '\\end{itemize}', '\\def', '\\foo',
    '\\newcommand{', '\\section', '\\left.|', '\\big\\{', '\\Bigg\\rangle',
]
ALPHABET = ALPHABET_CHARS + ALPHABET_NAMES + ALPHABET_SNIPPETS


def apply_faults(wire, faults):
    """Return (delivered_chunks, applied) for text faults.

    ``applied`` lists the faults that actually changed something (a fault whose
    index is out of range is dropped, which keeps minimised plans meaningful).
    """
    entries = [[i, c] for i, c in enumerate(wire)]
    applied = []
    for f in faults:
        k = f['kind']
        if k not in TEXT_FAULTS:
            continue
        at = f['at']
        pos = None
        for j, e in enumerate(entries):
            if e[0] == at:
                pos = j
                break
        if k == 'JUNK':
            if pos is None:
                pos = len(entries)
            entries.insert(pos, [None, f['sym']])
            applied.append(f)
            continue
        if pos is None:
            continue
        if k == 'EOF':
            del entries[pos:]
        elif k == 'LOSS':
            del entries[pos]
        elif k == 'DUP':
            entries.insert(pos, [None, entries[pos][1]])
        elif k == 'SWAP':
            if pos + 1 >= len(entries):
                continue
            entries[pos], entries[pos + 1] = entries[pos + 1], entries[pos]
        elif k == 'FLIP':
            c = entries[pos][1]
            if not c:
                continue
            off = f.get('off', 0) % len(c)
            entries[pos][1] = c[:off] + f['sym'] + c[off + 1:]
        applied.append(f)
    return [e[1] for e in entries], applied


def draw_faults(rng, wire, n, kinds, sites=None, alphabet=ALPHABET):
    """Draw ``n`` text faults.  ``sites``: indices where in-flight state exists;
    half of the faults are placed there, half uniformly."""
    faults = []
    if not wire and 'JUNK' not in kinds:
        return faults
    for _ in range(n):
        kind = kinds[rng.randrange(len(kinds))]
        if not wire:
            kind = 'JUNK'
        if sites and rng.random() < 0.5:
            at = sites[rng.randrange(len(sites))]
        else:
            at = rng.randrange(len(wire) + (1 if kind in ('JUNK', 'EOF') else 0)) if wire else 0
        f = {'kind': kind, 'at': at}
        if kind in ('FLIP', 'JUNK'):
            f['sym'] = alphabet[rng.randrange(len(alphabet))]
        if kind == 'FLIP':
            f['off'] = rng.randrange(8)
        faults.append(f)
    return faults


# ---------------------------------------------------------------------------
# chunk plans
# ---------------------------------------------------------------------------
CHUNK_PLANS = ('whole', 'chars', 'lines', 'tokens', 'random', 'random+empty')


def chunk_text(rng, text, plan, token_bounds=None):
    """Split ``text`` into chunks according to ``plan`` (seeded)."""
    if plan == 'whole':
        return [text]
    if plan == 'chars':
        return list(text)
    if plan == 'lines':
        return text.splitlines(keepends=True) if text else []
    if plan == 'tokens' and token_bounds:
        out, prev = [], 0
        for b in token_bounds:
            out.append(text[prev:b])
            prev = b
        if prev < len(text):
            out.append(text[prev:])
        return out
    n = len(text)
    k = rng.randrange(0, min(n, 12) + 1) if n else 0
    cuts = sorted(set(rng.randrange(n + 1) for _ in range(k)))
    out, prev = [], 0
    for c in cuts:
        out.append(text[prev:c])
        prev = c
    out.append(text[prev:])
    if plan == 'random+empty':
        for _ in range(rng.randrange(1, 4)):
            out.insert(rng.randrange(len(out) + 1), '')
    return out


# ---------------------------------------------------------------------------
# the reader object
# ---------------------------------------------------------------------------
class _FileLike:
    """Hand-written file-like stub: iteration yields the chunks."""

    def __init__(self, reader):
        self._r = reader
        self._it = reader._iter_chunks()
        self.closed = False

    def __iter__(self):
        return self

    def __next__(self):
        return next(self._it)

    def read(self, n=-1):
        return ''.join(self._it)

    def readline(self):
        return next(self._it, '')

    def close(self):
        self.closed = True


class SimReader:
    """Deliver ``chunks`` to TexSoup in a given form.

    ``on_chunk(k)`` is called before chunk k is handed over (a YIELD point) in
    forms where caller code runs during iteration (gen, filelike).  ``ioerr_at``
    makes the reader raise OSError instead of delivering chunk k.
    """

    def __init__(self, chunks, form='list', on_chunk=None, ioerr_at=None):
        assert form in FILE_FORMS, form
        self._fh = None
        self.chunks = list(chunks)
        self.form = form
        self.on_chunk = on_chunk
        self.ioerr_at = ioerr_at
        self.requested = 0      # number of chunks actually pulled
        self.exhausted = False  # the parser saw the end of the stream
        self.delivered = []

    @property
    def text(self):
        return ''.join(self.chunks)

    def close(self):
        if self._fh is not None:
            self._fh.close()
            self._fh = None

    def _iter_chunks(self):
        for k, c in enumerate(self.chunks):
            if self.on_chunk is not None:
                self.on_chunk(k)
            if self.ioerr_at is not None and k == self.ioerr_at:
                raise OSError('simulated I/O error at chunk %d' % k)
            self.requested += 1
            self.delivered.append(c)
            yield c
        if self.ioerr_at is not None and self.ioerr_at >= len(self.chunks):
            raise OSError('simulated I/O error at end of stream')
        self.exhausted = True

    def source(self):
        """The object to hand to TexSoup()."""
        f = self.form
        if f == 'str':
            self.requested = len(self.chunks)
            self.exhausted = True
            self.delivered = list(self.chunks)
            return ''.join(self.chunks)
        if f == 'list':
            self.requested = len(self.chunks)
            self.exhausted = True
            self.delivered = list(self.chunks)
            return list(self.chunks)
        if f == 'tuple':
            self.requested = len(self.chunks)
            self.exhausted = True
            self.delivered = list(self.chunks)
            return tuple(self.chunks)
        if f == 'gen':
            return self._iter_chunks()
        if f == 'filelike':
            return _FileLike(self)
        if f == 'stringio':
            # newline='' => no newline translation: the characters delivered
            # are the characters given.  Iteration yields lines.
            self.requested = len(self.chunks)
            self.exhausted = True
            self.delivered = list(self.chunks)
            return io.StringIO(''.join(self.chunks), newline='')
        if f == 'realfile':
            # a real file opened in text mode, as the README and the test fixture
            # do; only for LF-only text (text mode would rewrite '\r', i.e.
            # deliver different characters) - otherwise the StringIO stand-in
            text = ''.join(self.chunks)
            self.requested = len(self.chunks)
            self.exhausted = True
            self.delivered = list(self.chunks)
            if '\r' in text:
                return io.StringIO(text, newline='')
            import atexit
            import os
            import shutil
            import tempfile
            global _SCRATCH
            if _SCRATCH is None:
                _SCRATCH = tempfile.mkdtemp(prefix='tsim-files-')
                atexit.register(shutil.rmtree, _SCRATCH, True)
            path = os.path.join(_SCRATCH, 'src.tex')
            try:
                with open(path, 'w', encoding='utf-8', newline='') as fp:
                    fp.write(text)
            except UnicodeEncodeError:      # lone surrogates cannot be written to a file
                return io.StringIO(text, newline='')
            self._fh = open(path, encoding='utf-8')
            return self._fh
        if f == 'lines':
            self.requested = len(self.chunks)
            self.exhausted = True
            self.delivered = list(self.chunks)
            return ''.join(self.chunks).splitlines(keepends=True)
        raise AssertionError(f)
