"""C06 - parsing is total: a tree or a diagnostic, within bounded steps."""
from ._stream import make

PROPERTY = 'C06'
TIERS = {'quick': {'runs': 16000, 'group': 250}, 'thorough': {'runs': 400000, 'group': 1000}}
RULE = ('Each run draws a base document (grammar generator, deep/alternating nesting to depth 40, '
        'repository corpus, sizing-command sweep, or a 0-6 symbol string over the token-kind alphabet), '
        'a chunking, an input form and 0-3 reader faults (EOF/LOSS/DUP/SWAP/FLIP/JUNK, half placed at '
        'in-flight sites), then parses the delivered text in both tolerance modes under the step clock. '
        'A run is non-trivial if at least one fault fired or the text is an alphabet string; it is '
        'distinct by the digest of (delivered text, skip_envs).')
setup, teardown, gen, run, minimize, sample = make(PROPERTY)
