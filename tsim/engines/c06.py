"""C06 - parsing is total: a tree or a diagnostic, within bounded steps."""
from ._stream import make

PROPERTY = 'C06'
TIERS = {'quick': {'runs': 16000, 'group': 250}, 'thorough': {'runs': 400000, 'group': 500}}
RULE = ('Each run is one of: doc (grammar document, a chunking, an input form and 0-3 reader faults EOF/LOSS/DUP/SWAP/'
        'FLIP/JUNK, half placed at in-flight sites), deep (nesting to depth 40, env/command alternation, nested math and '
        'bracket arguments, half truncated), alphabet (0-6 symbols over the token-kind alphabet incl. one representative '
        'per kind of Unicode code point), repeat (a 1-3 symbol unit repeated 5-40 times; in a third of the runs two of 17 openers alternating to nesting depth 24-40, half of those closed into a valid nest; the corpus also holds the minimal inputs of the repaired findings), tail (every 8th run; the run '
        'index walks through all ordered pairs, then triples, of alphabet symbols placed at the very end of the input '
        'after a context with a construct in flight), corpus, sizing sweep, wellformed (fault-free restricted-grammar '
        'document: no diagnostic allowed) and cause (restricted-grammar document with exactly one inserted construct '
        'that a diagnostic is for). The delivered text is parsed in both tolerance modes under the step clock and a '
        'memory cap. Non-trivial: a fault fired, or an alphabet/repeat/tail/wellformed/cause run; distinct by the digest '
        'of (delivered text, skip_envs).')
setup, teardown, gen, run, minimize, sample = make(PROPERTY)
