"""C07 - tolerant mode is a conservative extension that only inserts closers."""
from ._stream import make

PROPERTY = 'C07'
TIERS = {'quick': {'runs': 10000, 'group': 200}, 'thorough': {'runs': 120000, 'group': 400}}
RULE = ('Each run delivers a text through the reader seam and parses it strictly and tolerantly. 45% are recovery runs: a '
        'document of the restricted sub-grammar (no math, verbatim, list regions; every bracket an argument delimiter) '
        'that parses and round-trips intact, tried with several alternative single faults (quick 3, thorough up to 16): '
        'LOSS of one real, non-absorbable closer token or EOF while a construct is open. The rest are documents with 0-3 '
        'faults, deep nestings, repeated units, corpus excerpts, alphabet strings and (every 8th run) stratified '
        'end-of-input pairs. Non-trivial: a fault fired or an alphabet/repeat/tail run; distinct by digest of (delivered '
        'text, skip_envs).')
setup, teardown, gen, run, minimize, sample = make(PROPERTY)


def vacuity(agg):
    c = agg['counters']
    runs = agg['runs']
    rec = c.get('mode.recover', 0)
    if rec and c.get('c07.b.evaluated', 0) < 0.5 * rec:
        return ('clause (b) was evaluated for only %d alternatives in %d recovery runs: the intact documents are not '
                'admitted (do not parse strictly / round-trip)' % (c.get('c07.b.evaluated', 0), rec))
    if runs and c.get('c07.c.evaluated', 0) < 0.2 * runs:
        return 'clause (c) was evaluated in only %d of %d runs' % (c.get('c07.c.evaluated', 0), runs)
    return None
