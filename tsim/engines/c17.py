"""C17 - the result depends only on the source text; parses are isolated.

world-sim: a *run* is 2-3 clients, each with a script of parse / re-parse /
edit / observe / aborted-parse operations on documents it owns.  The run is
executed in several *worlds* (fresh interpreters):

  W_ref  every client alone, sequentially, str input, hash seed h0
  W_k    another hash seed; clients interleaved by a seeded cooperative
         scheduler, with other clients' operations executed re-entrantly inside
         the reader while a parse pulls its chunks; other input forms and
         chunkings; the run placed after a different process history

and every client's observation log must be identical in all worlds.  Within a
world no two live trees may share a mutable container, and re-parsing a source
must give what its first parse gave.
"""
import json
import random

from .. import docgen, rng, simreader
from ..docmodel import is_texnode
from ..rng import digest

PROPERTY = 'C17'
TIERS = {'quick': {'runs': 5000, 'group': 25, 'worlds': 2}, 'thorough': {'runs': 60000, 'group': 25, 'worlds': 6}}
RULE = ('Each run draws 2-3 client scripts (parse with options, re-parse, edit burst, observe, aborted parse by '
        'malformed source or reader I/O error) over a shared pool of sources (grammar documents, sizing-command '
        'sweep, alphabet strings, corpus) and is executed in a reference world and in 2 (quick) / 6 (thorough) '
        'further worlds that differ in PYTHONHASHSEED, schedule (interleaving and nesting inside reader yield '
        'points), input form, chunking and process history (position in a group of 25 runs). Non-trivial: at '
        'least one operation was interleaved or nested; distinct by digest of the schedule trace and scripts.')
STUBS = ['input reader (SimReader) with yield points and I/O errors (one input form is a real file opened in text mode)', 'cooperative scheduler deciding which client runs']
PROBES = ['nested-parse-in-reader', 'nested-edit-in-reader', 'aborted-then-same-source', 'same-source-live-twice',
          'edit-between-parses-of-same-source', 'skip-env-option-vs-unskipped-elsewhere', 'ioerr-abort',
          'sizing-source', 'world-first-in-pristine-interpreter']
ASSUMPTIONS = ['interleavings are those a single-threaded caller can produce (operation granularity and re-entrant '
               'calls from inside a caller-supplied reader); pre-emptive threads are not simulated',
               'real files are represented by io.StringIO(newline="") and a hand-written file-like stub so that the '
               'characters delivered are the characters given']

STRS = ['S', 'hello', ' new ', 'x']
MAT = ['\\new{arg}', '\\x{}', '\\begin{e}n\\end{e}', '$m$']
NAMES = ['foo', 'bar', 'x', 'e', 'zz']
QUERY = ['x', 'foo', 'e', 'item', 'env', 'bar', 'textit', 'quote']


def setup(job):
    pass


def teardown(job):
    return {}


# ---------------------------------------------------------------------------
# script generation (world independent)
# ---------------------------------------------------------------------------
_sweep = None
_corpus = None


def gen_sources(r):
    global _sweep, _corpus
    if _sweep is None:
        _sweep = docgen.sizing_sweep()
        _corpus = [c for c in docgen.corpus() if len(c) < 700]
    pool = []
    n = r.randrange(2, 5)
    for _ in range(n):
        k = r.randrange(10)
        if k < 5:
            d = docgen.generate(r, profile=('twins', 'flat', 'plain', 'math', 'sizing', 'mixed')[r.randrange(6)],
                                size=r.randrange(3, 14))
            pool.append(d.text)
        elif k < 7:
            pool.append(_sweep[r.randrange(len(_sweep))])
        elif k < 8:
            pool.append(_corpus[r.randrange(len(_corpus))])
        else:
            syms = [simreader.ALPHABET[r.randrange(len(simreader.ALPHABET))] for _ in range(r.randrange(1, 6))]
            if r.random() < 0.15:
                # a document with a special first character (byte order mark, NUL, ...)
                syms = [simreader.ALPHABET_CHARS[r.randrange(len(simreader.ALPHABET_CHARS))]] + \
                    [docgen.generate(r, size=r.randrange(2, 6)).text]
            pool.append(''.join(syms))
    return pool


def gen_scripts(st):
    r = st['doc']
    pool = gen_sources(r)
    ro = st['ops']
    nclients = 2 + (ro.random() < 0.35)
    clients = []
    for _ in range(nclients):
        nops = ro.randrange(2, 7)
        ops = []
        nparsed = 0
        for i in range(nops):
            k = ro.randrange(100)
            if i == 0 or k < 35:
                opts = {'tolerance': int(ro.random() < 0.3), 'skip_envs': []}
                if ro.random() < 0.25:
                    opts['skip_envs'] = [docgen.ENV_NAMES[ro.randrange(len(docgen.ENV_NAMES))]]
                ops.append({'op': 'parse', 'src': pool[ro.randrange(len(pool))], 'opts': opts})
                nparsed += 1
            elif k < 50:
                ops.append({'op': 'reparse', 'ref': ro.randrange(64)})
            elif k < 72:
                edits = [[('delete', 'replace', 'insert', 'rename', 'args_append', 'set_string', 'append')
                          [ro.randrange(7)], ro.randrange(256), ro.randrange(256)] for _ in range(ro.randrange(1, 4))]
                ops.append({'op': 'edit', 'doc': ro.randrange(64), 'edits': edits})
            elif k < 88:
                ops.append({'op': 'observe', 'doc': ro.randrange(64)})
            else:
                if ro.random() < 0.5:
                    src = pool[ro.randrange(len(pool))]
                    ops.append({'op': 'abort', 'src': src, 'ioerr': True, 'opts': {'tolerance': 0, 'skip_envs': []}})
                else:
                    src = pool[ro.randrange(len(pool))] + ('\\begin{e}', '{', '$', '\\begin{verbatim}')[ro.randrange(4)]
                    ops.append({'op': 'abort', 'src': src, 'ioerr': False, 'opts': {'tolerance': 0, 'skip_envs': []}})
        clients.append(ops)
    return {'clients': clients}


def draw_wcfg(r, scripts, k):
    """World-specific choices: delivery of every parse and the scheduling mode."""
    delivery = {}
    for ci, ops in enumerate(scripts['clients']):
        for oi, op in enumerate(ops):
            if op['op'] in ('parse', 'reparse', 'abort'):
                if k == 0:
                    form, plan = 'str', 'whole'
                else:
                    form = simreader.FILE_FORMS[r.randrange(len(simreader.FILE_FORMS))]
                    plan = simreader.CHUNK_PLANS[r.randrange(len(simreader.CHUNK_PLANS))]
                if op.get('ioerr'):
                    form = ('gen', 'filelike')[r.randrange(2)] if k else 'gen'
                delivery['%d.%d' % (ci, oi)] = {'form': form, 'plan': plan, 'cut': r.randrange(1 << 30)}
    return {'mode': 'sequential' if k == 0 else 'interleaved', 'delivery': delivery,
            'sched_seed': r.randrange(1 << 30), 'schedule': None}


# ---------------------------------------------------------------------------
# execution of one run inside a world
# ---------------------------------------------------------------------------
def observe(soup):
    try:
        rp = repr(soup.expr)
        s = str(soup)
        counts = [len(soup.find_all(q)) for q in QUERY]
        return [digest(rp), digest(s), counts, len(s)]
    except Exception as e:  # noqa: BLE001
        return ['observe-raised', type(e).__name__]


def containers(soup):
    """ids of the mutable containers of a tree (harness walks the objects)."""
    ids = {}
    seen = set()
    stack = [soup.expr]
    while stack:
        e = stack.pop()
        if id(e) in seen:
            continue
        seen.add(id(e))
        if is_texnode(e):
            e = e.expr
        if not hasattr(e, '_contents'):
            continue
        ids[id(e)] = 'expr'
        ids[id(e._contents)] = 'contents-list'
        ids[id(e.args)] = 'args-list'
        if hasattr(e.args, 'all'):
            ids[id(e.args.all)] = 'args-all-list'
        for a in list(e.args):
            stack.append(a)
        for c in list(e._contents):
            if hasattr(c, '_contents') or is_texnode(c):
                stack.append(c)
    return ids


def apply_edits(soup, edits, TexSoup):
    out = []
    for kind, a, b in edits:
        try:
            nodes = [d for d in soup.descendants if is_texnode(d)]
            if kind == 'delete' and nodes:
                nodes[a % len(nodes)].delete()
            elif kind == 'replace' and nodes:
                if b % 2:
                    nodes[a % len(nodes)].replace_with(STRS[b % len(STRS)])
                else:
                    d = TexSoup(MAT[b % len(MAT)])
                    nodes[a % len(nodes)].replace_with(d.all[0].copy())
            elif kind in ('insert', 'append'):
                targets = [soup] + [n for n in nodes if type(n.expr).__name__ in
                                    ('TexNamedEnv', 'BraceGroup', 'TexMathModeEnv', 'TexDisplayMathEnv')]
                t = targets[a % len(targets)]
                m = STRS[b % len(STRS)] if b % 2 else TexSoup(MAT[b % len(MAT)]).all[0].copy()
                if kind == 'insert':
                    t.insert(b % (len(t.expr._contents) + 1), m)
                else:
                    t.append(m)
            elif kind == 'rename':
                named = [n for n in nodes if type(n.expr).__name__ in ('TexCmd', 'TexNamedEnv')]
                if named:
                    named[a % len(named)].name = NAMES[b % len(NAMES)]
            elif kind == 'args_append':
                named = [n for n in nodes if type(n.expr).__name__ in ('TexCmd', 'TexNamedEnv')]
                if named:
                    named[a % len(named)].args.append(('{z}', '[w]')[b % 2])
            elif kind == 'set_string':
                cmds = [n for n in nodes if type(n.expr).__name__ == 'TexCmd' and len(n.args) == 1]
                if cmds:
                    cmds[a % len(cmds)].string = STRS[b % len(STRS)]
            out.append(kind)
        except Exception as e:  # noqa: BLE001
            out.append('%s!%s' % (kind, type(e).__name__))
    return out


class Run:
    """One run inside one world."""

    def __init__(self, scripts, wcfg, count):
        from TexSoup import TexSoup
        self.TexSoup = TexSoup
        self.scripts = scripts
        self.wcfg = wcfg
        self.count = count
        self.logs = [[] for _ in scripts['clients']]
        self.docs = [[] for _ in scripts['clients']]       # live trees per client: (soup, src, opts, first entry)
        self.pc = [0] * len(scripts['clients'])
        self.busy = [False] * len(scripts['clients'])
        self.depth = 0
        self.trace = []
        self.violation = None
        self.interleaved = 0
        sched = wcfg.get('schedule')
        self.replay_sched = list(sched) if sched is not None else None
        self.sched_rng = random.Random(wcfg['sched_seed'])
        self.decisions = []
        self.seq = 0

    # -- scheduler -----------------------------------------------------
    def decide(self, n):
        """One scheduling decision in range(n); 0 means 'do not pre-empt'."""
        if self.replay_sched is not None:
            d = self.replay_sched.pop(0) if self.replay_sched else 0
            d = d % n if n else 0
        else:
            d = self.sched_rng.randrange(n) if n else 0
        self.decisions.append(d)
        return d

    def runnable(self, exclude=None):
        return [c for c in range(len(self.pc)) if not self.busy[c] and self.pc[c] < len(self.scripts['clients'][c])
                and c != exclude]

    def on_chunk(self, owner):
        """YIELD point inside a reader: maybe run other clients' operations
        re-entrantly (what a generator input that calls TexSoup does)."""
        def hook(k):
            if self.wcfg['mode'] != 'interleaved' or self.depth >= 3:
                return
            n = self.decide(4)            # 0,1: none  2: one op  3: two ops
            for _ in range(max(0, n - 1)):
                cand = self.runnable(exclude=owner)
                if not cand:
                    return
                c = cand[self.decide(len(cand))]
                self.step(c, nested=True)
        return hook

    def run(self):
        n = len(self.pc)
        if self.wcfg['mode'] == 'sequential':
            for c in range(n):
                while self.pc[c] < len(self.scripts['clients'][c]):
                    self.step(c)
        else:
            while True:
                cand = self.runnable()
                if not cand:
                    break
                c = cand[self.decide(len(cand))]
                self.step(c)
        self.final_checks()

    # -- one operation -------------------------------------------------
    def step(self, c, nested=False):
        i = self.pc[c]
        self.pc[c] += 1
        op = self.scripts['clients'][c][i]
        self.busy[c] = True
        self.depth += 1
        self.seq += 1
        self.trace.append([c, op['op'], self.depth])
        if nested:
            self.interleaved += 1
            self.count('probe.nested-%s-in-reader' % ('edit' if op['op'] == 'edit' else
                                                      'parse' if op['op'] in ('parse', 'reparse') else 'other'))
        try:
            entry = self.execute(c, i, op)
        finally:
            self.depth -= 1
            self.busy[c] = False
        self.logs[c].append(entry)

    def deliver(self, c, i, src, ioerr):
        d = self.wcfg['delivery']['%d.%d' % (c, i)]
        chunks = simreader.chunk_text(random.Random(d['cut']), src, d['plan'])
        ioerr_at = None
        if ioerr:
            ioerr_at = d['cut'] % (len(chunks) + 1)
        rd = simreader.SimReader(chunks, d['form'], on_chunk=self.on_chunk(c), ioerr_at=ioerr_at)
        return rd

    def do_parse(self, c, i, src, opts, ioerr=False):
        rd = self.deliver(c, i, src, ioerr)
        self.count('form.' + rd.form)
        try:
            soup = self.TexSoup(rd.source(), skip_envs=tuple(opts['skip_envs']), tolerance=opts['tolerance'])
        except Exception as e:  # noqa: BLE001
            return None, ['raised', type(e).__name__]
        finally:
            rd.close()
        return soup, ['tree'] + observe(soup)

    def execute(self, c, i, op):
        k = op['op']
        docs = self.docs[c]
        if k == 'parse':
            soup, entry = self.do_parse(c, i, op['src'], op['opts'])
            if soup is not None:
                for (s2, src2, o2, e2) in docs:
                    if src2 == op['src']:
                        self.count('probe.same-source-live-twice')
                if op['opts']['skip_envs']:
                    for cj, dj in enumerate(self.docs):
                        if cj != c and any(('\\begin{%s}' % op['opts']['skip_envs'][0]) in d[1] and not d[2]['skip_envs']
                                           for d in dj):
                            self.count('probe.skip-env-option-vs-unskipped-elsewhere')
                docs.append((soup, op['src'], op['opts'], entry))
            if '\\left' in op['src'] or '\\big' in op['src'] or '\\Big' in op['src'] or '\\right' in op['src']:
                self.count('probe.sizing-source')
            return ['parse'] + entry
        if k == 'reparse':
            if not docs:
                return ['reparse', 'nothing']
            soup0, src, opts, first = docs[op['ref'] % len(docs)]
            soup, entry = self.do_parse(c, i, src, opts)
            if entry != first and self.violation is None:
                self.violation = {'class': 'reparse-differs', 'detail': 'client %d: parsing the same source %r again '
                                  'gives %r, the first parse gave %r' % (c, src[:60], entry[:4], first[:4])}
            if soup is not None:
                docs.append((soup, src, opts, first))
            return ['reparse'] + entry
        if k == 'edit':
            if not docs:
                return ['edit', 'nothing']
            soup = docs[op['doc'] % len(docs)][0]
            res = apply_edits(soup, op['edits'], self.TexSoup)
            same_src = [d for d in docs if d[1] == docs[op['doc'] % len(docs)][1]]
            if len(same_src) > 1:
                self.count('probe.edit-between-parses-of-same-source')
            return ['edit', res] + observe(soup)
        if k == 'observe':
            if not docs:
                return ['observe', 'nothing']
            return ['observe'] + observe(docs[op['doc'] % len(docs)][0])
        if k == 'abort':
            soup, entry = self.do_parse(c, i, op['src'], op['opts'], ioerr=op['ioerr'])
            if op['ioerr']:
                self.count('probe.ioerr-abort')
            # parse the same source right after the aborted attempt
            if any(d[1] == op['src'] for d in docs):
                self.count('probe.aborted-then-same-source')
            return ['abort'] + entry[:2]
        raise AssertionError(k)

    def final_checks(self):
        # no two live trees share a mutable container
        owners = {}
        for c, docs in enumerate(self.docs):
            for j, d in enumerate(docs):
                for ident, what in containers(d[0]).items():
                    if ident in owners and owners[ident][:2] != (c, j):
                        if self.violation is None:
                            self.violation = {
                                'class': 'shared-mutable-state',
                                'detail': 'tree %d of client %d and tree %d of client %d share a %s object'
                                          % (j, c, owners[ident][1], owners[ident][0], what)}
                        return
                    owners[ident] = (c, j, what)


def exec_case(scripts, wcfg, count):
    run = Run(scripts, wcfg, count)
    run.run()
    return run


# ---------------------------------------------------------------------------
# world job (runs inside a worker process)
# ---------------------------------------------------------------------------
def world(job):
    import sys
    from .. import texapi
    texapi.sanity()
    k = job['world']
    seed = job['seed']
    lo, hi = job['range']
    order = list(range(lo, hi))
    if k:
        random.Random(rng.derive(seed, 'C17', 'order', lo, k)).shuffle(order)
    counters = {}

    def count(key, n=1):
        counters[key] = counters.get(key, 0) + n
    want = set(job.get('want', []))
    out = {'runs': {}, 'counters': counters, 'order': order, 'cases': {}, 'harness_errors': []}
    prefix = []
    for pos, idx in enumerate(order):
        st = rng.Streams(rng.derive(seed, 'C17', idx))
        scripts = gen_scripts(st)
        wcfg = draw_wcfg(st['world%d' % k], scripts, k)
        if pos == 0 and k:
            count('probe.world-first-in-pristine-interpreter')
        try:
            run = exec_case(scripts, wcfg, count)
        except Exception:  # noqa: BLE001
            import traceback
            out['harness_errors'].append({'index': idx, 'tb': traceback.format_exc()[-1500:]})
            continue
        wcfg_rec = dict(wcfg, schedule=run.decisions)
        ok, why = texapi.sanity()
        v = run.violation
        if not ok and v is None:
            v = {'class': 'poisoned-process', 'detail': why}
        out['runs'][str(idx)] = {
            'obs': [digest(lg) for lg in run.logs],
            'violation': v,
            'interleaved': run.interleaved,
            'trace': digest(run.trace),
            'nops': sum(len(c) for c in scripts['clients']),
        }
        if idx in want:
            out['cases'][str(idx)] = {'scripts': scripts, 'wcfg': wcfg_rec, 'prefix': list(prefix),
                                      'logs': run.logs}
        if want:
            prefix.append({'scripts': scripts, 'wcfg': wcfg_rec})
    return out


def world_replay(job):
    """Execute a literal side of a replay case: prefix runs, then the run."""
    from .. import texapi
    texapi.sanity()
    counters = {}

    def count(key, n=1):
        counters[key] = counters.get(key, 0) + n
    for p in job['side'].get('prefix', []):
        try:
            exec_case(p['scripts'], p['wcfg'], count)
        except Exception:  # noqa: BLE001
            pass
        # the probe battery that followed every run of the world is part of the
        # process history too (it contains parses that abort)
        texapi.sanity()
    run = exec_case(job['scripts'], job['side']['wcfg'], count)
    ok, why = texapi.sanity()
    v = run.violation
    if not ok and v is None:
        v = {'class': 'poisoned-process', 'detail': why}
    return {'logs': run.logs, 'violation': v, 'trace': run.trace, 'decisions': run.decisions}


# ---------------------------------------------------------------------------
# driver side
# ---------------------------------------------------------------------------
def world_hashseed(seed, g, k):
    return rng.derive(seed, 'C17', 'hashseed', g, k) % 100000


def drive(tier, seed, runs, pool, run_world):
    t = TIERS[tier]
    group, nworlds = t['group'], t['worlds']
    groups = []
    lo = 0
    while lo < runs:
        groups.append((len(groups), lo, min(runs, lo + group)))
        lo += group
    jobs = [(g, k) for g in groups for k in range(nworlds + 1)]

    def one(jk, want=None):
        (gi, lo, hi), k = jk
        job = {'op': 'call', 'prop': 'C17', 'func': 'world', 'seed': seed, 'range': [lo, hi], 'world': k}
        if want:
            job['want'] = want
        return run_world(job, world_hashseed(seed, gi, k))

    res = dict(zip([(g[0], k) for g, k in jobs], pool.map(one, jobs)))
    results = []
    fetched = {}
    for g in groups:
        gi, lo, hi = g
        ref = res[(gi, 0)]
        counters = {}
        for k in range(nworlds + 1):
            for key, v in res[(gi, k)]['counters'].items():
                counters[key] = counters.get(key, 0) + v
        violations = []
        digests, keys = [], []
        nontrivial = 0
        herrs = []
        for k in range(nworlds + 1):
            herrs.extend(res[(gi, k)]['harness_errors'])
        for idx in range(lo, hi):
            r0 = ref['runs'].get(str(idx))
            if r0 is None:
                continue
            rd = [r0['obs']]
            for k in range(nworlds + 1):
                rk = res[(gi, k)]['runs'].get(str(idx))
                if rk is None:
                    continue
                if k:
                    rd.append(rk['obs'])
                    counters['run-worlds'] = counters.get('run-worlds', 0) + 1
                    if rk['interleaved']:
                        nontrivial += 1
                        keys.append(digest([rk['trace'], idx]))
                if rk['violation']:
                    violations.append({'index': idx, 'kind': 'in-world', 'world': k, 'group': g,
                                       'violation': rk['violation']})
                elif k and rk['obs'] != r0['obs']:
                    violations.append({'index': idx, 'kind': 'cross-world', 'world': k, 'group': g,
                                       'violation': {'class': 'observation-differs',
                                                     'detail': 'client logs differ between the reference world '
                                                               'and world %d' % k}})
            digests.append(digest(rd))
        # fetch literal cases for (a few) violations by re-running the two worlds;
        # at most four per class over the whole check (a broken tree can violate
        # in every group, and every fetch costs two more worlds)
        vout = []
        chosen = []
        for v in violations:
            cls = v['violation']['class']
            if fetched.get(cls, 0) < 4:
                fetched[cls] = fetched.get(cls, 0) + 1
                chosen.append(v)
        for v in chosen:
            k = v['world']
            a = one((g, 0), want=[v['index']])['cases'].get(str(v['index']))
            b = one((g, k), want=[v['index']])['cases'].get(str(v['index'])) if k else None
            if a is None or (k and b is None):
                herrs.append({'index': v['index'], 'tb': 'could not re-create the worlds of run %d' % v['index']})
                continue
            case = {'scripts': a['scripts'],
                    'A': {'hashseed': world_hashseed(seed, gi, 0), 'wcfg': a['wcfg'], 'prefix': a['prefix']},
                    'B': ({'hashseed': world_hashseed(seed, gi, k), 'wcfg': b['wcfg'], 'prefix': b['prefix']}
                          if k else None),
                    'kind': v['kind']}
            if v['kind'] == 'in-world' and k:
                case['A'], case['B'] = case['B'], None
            vout.append({'index': v['index'], 'case': case, 'violation': v['violation'], 'summary': {},
                         'digest': ''})
        counters['violations'] = len(violations)
        results.append({'group': gi, 'hashseed': world_hashseed(seed, gi, 0), 'runs': len(digests), 'ticks': 0,
                        'nontrivial': nontrivial, 'counters': counters, 'keys': keys, 'digests': digests,
                        'violations': vout, 'samples': [], 'harness_errors': herrs,
                        'hashseeds_all': [world_hashseed(seed, gi, k) for k in range(nworlds + 1)]})
    if results and groups:
        # one literal sample for the evidence file
        g = groups[0]
        a = one((g, 1), want=[g[1]])['cases'].get(str(g[1]))
        if a:
            results[0]['samples'] = [{'clients': [[o['op'] for o in c] for c in a['scripts']['clients']],
                                      'first_source': a['scripts']['clients'][0][0].get('src', '')[:120],
                                      'world1_forms': sorted({d['form'] for d in a['wcfg']['delivery'].values()}),
                                      'world1_schedule': a['wcfg']['schedule'][:20]}]
    return results


def extra_coverage(agg):
    c = agg['counters']
    return {'evaluations': c.get('run-worlds', 0) + agg['runs'], 'runs': agg['runs'],
            'run_worlds': c.get('run-worlds', 0),
            'forms_used': {k[5:]: v for k, v in sorted(c.items()) if k.startswith('form.')}}


def _eval_case(case, run_world):
    """Run both sides in fresh interpreters; return (violation or None, log, summary)."""
    sides = [('A', case['A'])] + ([('B', case['B'])] if case.get('B') else [])
    outs = {}
    for name, side in sides:
        outs[name] = run_world({'op': 'call', 'prop': 'C17', 'func': 'world_replay', 'scripts': case['scripts'],
                                'side': side}, side['hashseed'])
    a = outs['A']
    log = [['A', a['logs']]]
    if a['violation']:
        return a['violation'], log, {'side': 'A'}
    if 'B' in outs:
        b = outs['B']
        log.append(['B', b['logs']])
        if b['violation']:
            return b['violation'], log, {'side': 'B'}
        if a['logs'] != b['logs']:
            first = None
            for ci, (la, lb) in enumerate(zip(a['logs'], b['logs'])):
                for oi, (ea, eb) in enumerate(zip(la, lb)):
                    if ea != eb:
                        first = (ci, oi, ea, eb)
                        break
                if first:
                    break
            dims = []
            A, B = case['A'], case['B']
            if A['hashseed'] != B['hashseed']:
                dims.append('hash-seed')
            if A['wcfg']['mode'] != B['wcfg']['mode'] or A['wcfg'].get('schedule') != B['wcfg'].get('schedule'):
                dims.append('interleaving')
            if A['wcfg']['delivery'] != B['wcfg']['delivery']:
                dims.append('input-form/chunking')
            if A.get('prefix') or B.get('prefix'):
                dims.append('process-history')
            return ({'class': 'observation-differs',
                     'detail': 'client %s operation %s: %r in world A, %r in world B; the worlds differ in: %s'
                               % (first[0] if first else '?', first[1] if first else '?',
                                  first[2] if first else None, first[3] if first else None, ', '.join(dims))},
                    log, {'dimensions': ','.join(dims)})
    return None, log, {}


def driver_minimize(v, seed, run_world):
    case = v['case']
    cls = v['violation']['class']
    tests = [0]

    def fails(c):
        tests[0] += 1
        if tests[0] > 120:
            return False
        try:
            viol, _, _ = _eval_case(c, run_world)
        except Exception:  # noqa: BLE001
            return False
        return bool(viol) and viol['class'] == cls

    if not fails(case):
        return None
    cur = json.loads(json.dumps(case))

    def attempt(mut):
        cand = json.loads(json.dumps(cur))
        mut(cand)
        if fails(cand):
            return cand
        return None

    # 1. drop process history
    for side in ('A', 'B'):
        if cur.get(side) and cur[side].get('prefix'):
            c2 = attempt(lambda c, side=side: c[side].__setitem__('prefix', []))
            if c2:
                cur = c2
    # 2. equalise dimensions one by one (what survives names the cause)
    if cur.get('B'):
        for mut in (
            lambda c: c['B'].__setitem__('hashseed', c['A']['hashseed']),
            lambda c: c['B']['wcfg'].__setitem__('delivery', c['A']['wcfg']['delivery']),
            lambda c: (c['B']['wcfg'].__setitem__('mode', c['A']['wcfg']['mode']),
                       c['B']['wcfg'].__setitem__('schedule', c['A']['wcfg'].get('schedule'))),
        ):
            c2 = attempt(mut)
            if c2:
                cur = c2
    # 3. fewer clients, fewer operations
    for ci in reversed(range(len(cur['scripts']['clients']))):
        if len(cur['scripts']['clients']) <= 1:
            break

        def drop_client(c, ci=ci):
            del c['scripts']['clients'][ci]
            for side in ('A', 'B'):
                if c.get(side):
                    d = {}
                    for key, val in c[side]['wcfg']['delivery'].items():
                        cc, oo = key.split('.')
                        cc = int(cc)
                        if cc == ci:
                            continue
                        d['%d.%s' % (cc - 1 if cc > ci else cc, oo)] = val
                    c[side]['wcfg']['delivery'] = d
                    c[side]['wcfg']['schedule'] = None if c[side]['wcfg']['mode'] == 'interleaved' else c[side]['wcfg'].get('schedule')
        c2 = attempt(drop_client)
        if c2:
            cur = c2
    for ci in range(len(cur['scripts']['clients'])):
        oi = len(cur['scripts']['clients'][ci]) - 1
        while oi >= 1:
            def drop_op(c, ci=ci, oi=oi):
                del c['scripts']['clients'][ci][oi]
                for side in ('A', 'B'):
                    if c.get(side):
                        d = {}
                        for key, val in c[side]['wcfg']['delivery'].items():
                            cc, oo = map(int, key.split('.'))
                            if cc == ci and oo == oi:
                                continue
                            d['%d.%d' % (cc, oo - 1 if (cc == ci and oo > oi) else oo)] = val
                        c[side]['wcfg']['delivery'] = d
            c2 = attempt(drop_op)
            if c2:
                cur = c2
            oi -= 1
    # 4. shrink the sources
    from ..minimize import ddmin_list
    for ci, ops in enumerate(cur['scripts']['clients']):
        for oi, op in enumerate(ops):
            if 'src' in op and len(op['src']) > 1 and tests[0] < 100:
                def with_src(chars, ci=ci, oi=oi):
                    c = json.loads(json.dumps(cur))
                    c['scripts']['clients'][ci][oi]['src'] = ''.join(chars)
                    return c
                chars = ddmin_list(list(op['src']), lambda ch: fails(with_src(ch)), max_tests=40)
                cur = with_src(chars)
    viol, log, summary = _eval_case(cur, run_world)
    viol2, log2, _ = _eval_case(cur, run_world)
    if not viol or viol['class'] != cls or log != log2:
        return None
    return {'case': cur, 'violation': viol, 'digest': digest(log), 'log': log, 'summary': summary, 'minimized': True}


def driver_replay(rep, run_world):
    viol, log, summary = _eval_case(rep['case'], run_world)
    return {'violation': viol, 'digest': digest(log), 'log': log, 'summary': summary}


def sample(case, res):
    return {}
