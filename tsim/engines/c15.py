"""C15 - any history of edits keeps the tree equal to a reference model.

history-sim: one parsed document, a handle table (TexNode handles acquired the
way users acquire them, used immediately or many steps later), fresh donor
material, and a seeded history of edit operations executed against the real
tree and against tsim.docmodel, with cross-view invariants after every step.
"""
import collections

from .. import docgen
from ..docmodel import M, compare, is_texnode, mirror
from ..rng import digest

PROPERTY = 'C15'
TIERS = {'quick': {'runs': 36000, 'group': 400}, 'thorough': {'runs': 800000, 'group': 2500}}
RULE = ('Each run parses one generated document (twins-rich, lists, math, nested arguments; admitted only if it '
        'parses, round-trips and every view works before the first edit), then applies a history of 1-30 edit '
        'operations (delete, replace_with, parent.replace, parent.remove, insert at every body index, append, '
        'rename, set string, group string, argument-list operations incl. slice assignment, and the documented '
        'rejected forms) through handles that are fresh or were acquired earlier (stale), using freshly parsed '
        'donor nodes and plain strings as material. After every step: str(soup) vs model, parallel identity walk, '
        'find_all/count/find/descendants/text/children/contents/all/parent views vs model. Non-trivial: at least '
        'one edit changed the document; distinct by digest of (document, resolved operations).')
STUBS = []
PROBES = ['edit-second-twin', 'edit-in-inserted-material', 'stale-handle-used', 'stale-after-twin-deleted',
          'handle-detached', 'insert-at-0', 'insert-at-len', 'insert-in-between', 'target-in-arg-of-arg',
          'target-in-item', 'target-in-math', 'target-text-leaf', 'rejected-append', 'rejected-insert', 'rejected-set-string',
          'twin-created-by-insert']
ASSUMPTIONS = ['new material is always fresh (a node parsed elsewhere and copied, or a plain string); the same '
               'expression object is never inserted at two places',
               'names and strings are plain identifiers / plain text without TeX-special characters',
               'the model walks expr.args and expr._contents of the real tree for the identity comparison']

KINDS = ('text', 'esc', 'linebreak', 'comment', 'cmd', 'env', 'list', 'group', 'math', 'mathenv', 'cmd', 'env')
OPS = ('delete', 'replace_with', 'parent_replace', 'parent_remove', 'insert', 'append', 'rename', 'set_string',
       'group_string', 'args_append', 'args_insert', 'args_remove', 'args_pop', 'args_reverse', 'args_clear',
       'args_extend', 'args_slice', 'args_selfassign', 'acquire', 'rej_append', 'rej_insert')
NAMES = ['foo', 'bar', 'x', 'qq', 'e', 'env', 'quote', 'zz', 'new']
STRINGS = ['S', 'hello', ' new text ', 'x', 'a b', '12', 'Soup']
# (snippet, how to take the node out of the freshly parsed donor)
MATERIAL = [
    ('\\new{arg}', 'new'), ('\\x{}', 'x'), ('\\foo', 'foo'), ('\\x', 'x'), ('\\foo{a}[b]', 'foo'),
    ('\\begin{e}n\\end{e}', 'e'), ('\\begin{e}\\x{}\\end{e}', 'e'), ('\\bar{\\x{} y}', 'bar'),
    ('\\begin{itemize}\\item fresh\n\\end{itemize}', 'item'), ('$m$', '@0'), ('{grp \\x}', '@0'),
    ('\\begin{itemize}\\item one\n\\item two\n\\end{itemize}', 'itemize'),
    # nodes taken from INSIDE the donor (an argument group, an environment body, an \item)
    ('\\textbf{\\emph{x} y}', 'emph'), ('\\begin{e}\\x{}\\end{e}', 'x'),
    ('\\begin{itemize}\\item \\foo{a}\n\\end{itemize}', 'foo'), ('\\bar[\\qq{z}]{w}', 'qq'), ('$\\x{}$', 'x'),
]
ARG_STRINGS = ['{x}', '[y]', '{}', '{a b}', '[x]', '{x}', '{{a}b}', '[[1] 2]']


def setup(job):
    pass


def teardown(job):
    return {}


def gen(st, index, job):
    r = st['doc']
    prof = r.randrange(10)
    if prof < 2:
        doc = docgen.DOC_EXAMPLES[r.randrange(8)]
    else:
        size = r.randrange(3, 16)
        g = docgen.Gen(r, KINDS, size, r.randrange(2, 5), ws=('normal', 'lines', 'tight')[r.randrange(3)],
                       names=['x', 'foo', 'bar'] if prof < 7 else None)
        g.body(0, size)
        toks = [t.text for t in g.toks]
        if r.random() < 0.4 and g.toks:
            # twin-rich: duplicate one complete construct right behind itself (with or
            # without text in between), wherever it sits - body, argument group, item, math
            units = {}
            for i, t in enumerate(g.toks):
                for u in t.path:
                    units.setdefault(u, []).append(i)
            cands = [v for v in units.values() if 1 <= len(v) <= 10 and v == list(range(v[0], v[-1] + 1))
                     and g.toks[v[0]].tag in ('cmd', 'begin', 'open', 'math') and g.toks[v[0]].region in ('', 'math', 'list')]
            if cands:
                v = cands[r.randrange(len(cands))]
                span = toks[v[0]:v[-1] + 1]
                sep = [('', ' t ', ' ')[r.randrange(3)]]
                toks = toks[:v[-1] + 1] + sep + span + toks[v[-1] + 1:]
        doc = ''.join(toks)
    ro = st['ops']
    nops = (1, 1, 2, 2, 3, 3, 4, 5, 6, 8, 10, 14, 20, 30)[ro.randrange(14)]
    enabled = [o for o in OPS if ro.random() < 0.6] or ['delete', 'insert']
    if 'acquire' not in enabled:
        enabled.append('acquire')
    ops = [[enabled[ro.randrange(len(enabled))]] + [ro.randrange(1 << 16) for _ in range(5)] for _ in range(nops)]
    # stratified: the run index walks through the operation kinds, so every kind
    # is the first edit of a fresh tree equally often (on a freshly acquired handle)
    ops[0][0] = OPS[index % len(OPS)]
    ops[0][1] |= 1
    return {'doc': doc, 'ops': ops}


class Violation(Exception):
    def __init__(self, cls, detail):
        Exception.__init__(self, detail)
        self.cls = cls
        self.detail = detail


class Sim:
    def __init__(self, case, count):
        from TexSoup import TexSoup
        self.TexSoup = TexSoup
        self.case = case
        self.count = count
        self.reg = {}
        self.keep = []          # strong references: ids must stay unique
        self.table = []         # handles: (TexNode, step acquired)
        self.inserted = set()   # uids of model nodes that entered as material
        self.changed = False
        self.deleted = set()    # serialisations of nodes removed so far
        self.soup = TexSoup(case['doc'])
        self.model = mirror(self.soup.expr, self.reg)

    # -- model helpers -------------------------------------------------
    def mnode(self, handle):
        ent = self.reg.get(id(handle.expr))
        return ent[0] if ent else None

    def attached_nodes(self):
        return [n for n in self.model.nodes()]

    def material(self, a, b):
        """Fresh material: list of (real thing, model node)."""
        out = []
        n = 1 + (a % 7 == 0) + (a % 11 == 0)
        for j in range(n):
            sel = (a // 3 + j * 5 + b)
            if sel % 3 == 0:
                s = STRINGS[(sel // 3) % len(STRINGS)]
                out.append((s, M('text', text=s)))
            else:
                snippet, how = MATERIAL[(sel // 3) % len(MATERIAL)]
                donor = self.TexSoup(snippet)
                self.keep.append(donor)
                node = donor.all[0] if how == '@0' else donor.find(how)
                fresh = node.copy()
                m = mirror(fresh.expr, self.reg)
                out.append((fresh, m))
        return out

    def fresh_args(self, a):
        from TexSoup.data import BraceGroup, BracketGroup
        s = ARG_STRINGS[a % len(ARG_STRINGS)]
        m = M('group', name='BraceGroup' if s[0] == '{' else 'BracketGroup', begin=s[0], end=s[-1])
        if s[1:-1]:
            m.body = [M('text', text=s[1:-1])]
            m.adopt()
        m.argflag = True
        if a % 2:
            return s, m
        cls = BraceGroup if s[0] == '{' else BracketGroup
        obj = cls(s[1:-1]) if s[1:-1] else cls()
        return obj, m

    # -- acquisition ---------------------------------------------------
    def acquire(self, a, b):
        """Obtain a TexNode handle the way users do."""
        soup = self.soup
        how = a % 9
        names = sorted({n.name for n in self.model.descendants() if n.kind in ('cmd', 'env')})
        h = None
        if how in (0, 1, 2) and names:
            name = names[(a // 9) % len(names)]
            if how == 0:
                found = soup.find_all(name)
                h = found[b % len(found)] if found else None
            elif how == 1:
                h = soup.find(name)
            else:
                h = getattr(soup, name)
        elif how == 3:
            ds = [d for d in soup.descendants if is_texnode(d)]
            h = ds[b % len(ds)] if ds else None
        elif how == 4 and self.table:
            base = self.table[b % len(self.table)][0]
            ch = base.children
            h = ch[(a // 9) % len(ch)] if ch else None
        elif how == 5 and self.table:
            h = self.table[b % len(self.table)][0].parent
        elif how == 6:
            h = soup
        elif how == 7:
            al = soup.all
            h = al[b % len(al)] if al else None
        elif how == 8 and self.table:
            base = self.table[b % len(self.table)][0]
            cs = [c for c in base.contents if is_texnode(c)]
            h = cs[(a // 9) % len(cs)] if cs else None
        if h is None or not is_texnode(h):
            return None
        return h

    def pick(self, step, hsel, a, b):
        """A handle: from the table (possibly stale) or freshly acquired."""
        if hsel % 2 == 0 and self.table:
            h, when = self.table[(hsel // 2) % len(self.table)]
            if when < step - 1:
                self.count('probe.stale-handle-used')
            return h, 'table'
        h = self.acquire(a, b)
        if h is not None:
            self.table.append((h, step))
            if len(self.table) > 6:
                self.table.pop(0)
        return h, 'fresh'

    # -- one step ------------------------------------------------------
    def step(self, step, op, hsel, a, b, c, d):
        count = self.count
        if op == 'acquire':
            h = self.acquire(a, b)
            if h is not None:
                self.table.append((h, step))
                if len(self.table) > 6:
                    self.table.pop(0)
            return ('acquire', a % 9, str(h)[:30] if h is not None else None), None
        h, src = self.pick(step, hsel, a, b)
        if h is None:
            return ('skip', op), None
        m = self.mnode(h)
        if m is None:
            raise Violation('view-returned-unknown-node', 'a handle %r obtained through navigation/search denotes '
                            'an object that is at no place of the document model' % str(h)[:60])
        att = m.attached()
        wp = m.wrapper_parent()
        in_par = m.in_parent()
        if not att:
            count('probe.handle-detached')
        # probes about where the target sits
        if att and m.kind != 'root':
            p = m.parent
            if p.is_arg() and p.parent.wrapper_parent() is not None and p.parent.parent is not None \
                    and p.parent.parent.is_arg():
                count('probe.target-in-arg-of-arg')
            anc = m.parent
            while anc is not None:
                if anc.kind == 'cmd' and anc.name == 'item':
                    count('probe.target-in-item')
                    break
                if anc.kind == 'math' or (anc.kind == 'env' and anc.name in docgen.MATH_ENVS):
                    count('probe.target-in-math')
                    break
                anc = anc.parent
            if m.kind == 'text':
                count('probe.target-text-leaf')
            twins = [n for n in self.model.descendants() if n is not m and n.kind == m.kind and n.kind != 'text'
                     and n.ser() == m.ser()]
            if twins:
                first = [n for n in self.model.descendants() if n.kind != 'text' and n.ser() == m.ser()][0]
                if first is not m:
                    count('probe.edit-second-twin')
            x = m
            while x is not None:
                if x.uid in self.inserted and x is not m:
                    count('probe.edit-in-inserted-material')
                    break
                x = x.parent
        if src == 'table' and att and m.kind != 'text' and m.ser() in self.deleted:
            count('probe.stale-after-twin-deleted')
        desc = None
        expect = None        # expected exception type name for rejected forms
        effect = None        # callable applying the edit to the model
        call = None          # callable applying the edit to the real tree
        # only operations that work through the parent can meet a node that is no
        # longer in its parent (raising is allowed then, the document must not
        # change); operations on the node itself work on a detached node as well
        linked = in_par and m.parent is not None and (not m.parent.is_arg() or m.parent.in_parent())
        any_exc_ok = (not linked) and op in ('delete', 'replace_with', 'parent_replace', 'parent_remove')

        def mat():
            ms = self.material(c, d)
            return [x for x, _ in ms], [y for _, y in ms]

        if op in ('delete', 'replace_with', 'parent_replace', 'parent_remove'):
            if m.kind == 'root' or h.parent is None or m.is_arg() or m.parent is None:
                return ('skip', op), None
            par = m.parent
            if op == 'parent_remove' and par.is_arg():
                return ('skip', op), None
            orphaned_body = (par.kind == 'cmd' and par.name != 'item' and not par.is_arg()
                             and any(x is m for x in par.body))
            if orphaned_body:
                # the parent was an \item and has been renamed: a command that is not an
                # \item "has no children", editing its old body is the documented TypeError
                desc = (op + '-in-renamed-item', m.ser()[:40], src)
                expect = 'TypeError'
                count('probe.child-of-renamed-item')
                effect = lambda: None  # noqa: E731
                reals, models = ([], [])
                if op in ('replace_with', 'parent_replace'):
                    reals, models = mat()
                call = {'delete': lambda: h.delete(), 'parent_remove': lambda: h.parent.remove(h),
                        'replace_with': lambda: h.replace_with(*reals),
                        'parent_replace': lambda: h.parent.replace(h, *reals)}[op]
            elif op in ('delete', 'parent_remove'):
                desc = (op, m.ser()[:40], src)

                def effect():
                    if m.in_parent():
                        self.deleted.add(m.ser())
                        par.body[:] = [x for x in par.body if x is not m]
                call = (lambda: h.delete()) if op == 'delete' else (lambda: h.parent.remove(h))
            else:
                reals, models = mat()
                desc = (op, m.ser()[:40], [x.ser()[:30] for x in models], src)

                def effect():
                    if m.in_parent():
                        i = [k for k, x in enumerate(par.body) if x is m][0]
                        par.body[i:i + 1] = models
                        for x in models:
                            x.parent = par
                            self.inserted.add(x.uid)
                call = (lambda: h.replace_with(*reals)) if op == 'replace_with' \
                    else (lambda: h.parent.replace(h, *reals))
        elif op in ('insert', 'append', 'rej_append', 'rej_insert'):
            supports = m.kind in ('root', 'env', 'math', 'group') or (m.kind == 'cmd' and m.name == 'item')
            if m.is_arg():
                return ('skip', op), None
            if op == 'rej_append':
                if supports:
                    return ('skip', op), None
                if m.kind != 'cmd':
                    return ('skip', op), None
                reals, models = mat()
                desc = ('append-on-command', m.ser()[:40])
                expect = 'TypeError'
                count('probe.rejected-append')
                call = lambda: h.append(*reals)  # noqa: E731
                effect = lambda: None  # noqa: E731
            elif op == 'rej_insert':
                if not supports or not self.table:
                    return ('skip', op), None
                other = self.table[b % len(self.table)][0]
                if other.parent is None:
                    return ('skip', op), None
                i = c % (len(m.body) + 1)
                desc = ('insert-parented-node', m.ser()[:40], i, str(other)[:30])
                expect = 'AssertionError'
                count('probe.rejected-insert')
                call = lambda: h.insert(i, other)  # noqa: E731
                effect = lambda: None  # noqa: E731
            else:
                if not supports:
                    return ('skip', op), None
                reals, models = mat()
                if op == 'insert':
                    i = b % (len(m.body) + 1)
                    count('probe.insert-at-0' if i == 0 else 'probe.insert-at-len' if i == len(m.body)
                          else 'probe.insert-in-between')
                else:
                    i = len(m.body)
                desc = (op, m.ser()[:40], i, [x.ser()[:30] for x in models], src)
                for x in models:
                    if x.kind != 'text' and any(n.ser() == x.ser() for n in self.model.descendants()
                                                if n.kind == x.kind):
                        count('probe.twin-created-by-insert')

                def effect():
                    m.body[i:i] = models
                    for x in models:
                        x.parent = m
                        self.inserted.add(x.uid)
                call = (lambda: h.insert(i, *reals)) if op == 'insert' else (lambda: h.append(*reals))
        elif op == 'rename':
            if m.kind not in ('cmd', 'env') or m.is_arg():
                return ('skip', op), None   # (an \item may be renamed: its body must keep printing)
            new = NAMES[c % len(NAMES)]
            if m.kind == 'env' and (m.name in docgen.MATH_ENVS or m.name in docgen.LIST_ENVS):
                return ('skip', op), None
            desc = ('rename', m.ser()[:40], new, src)

            def effect():
                m.name = new

            def call():
                h.name = new
        elif op == 'set_string':
            s = STRINGS[c % len(STRINGS)]
            flat = m.flat_contents()
            if m.kind == 'cmd' and len(m.args) != 1 and not m.is_arg():
                # documented: .string is only valid for commands with one argument
                # (\item included: its body is not its string)
                desc = ('set_string-rejected', m.ser()[:40], s, src)
                expect = 'AssertionError'
                count('probe.rejected-set-string')
                effect = lambda: None  # noqa: E731
            elif m.kind in ('env', 'math') and not m.is_arg() and not (len(flat) == 1 and flat[0].kind == 'text'):
                desc = ('set_string-rejected', m.ser()[:40], s, src)
                expect = 'AssertionError'
                count('probe.rejected-set-string')
                effect = lambda: None  # noqa: E731
            elif m.kind == 'cmd' and len(m.args) == 1 and m.args[0].kind == 'group':
                desc = ('set_string', m.ser()[:40], s, src)

                def effect():
                    t = M('text', text=s)
                    m.args[0].body = [t]
                    t.parent = m.args[0]
            elif m.kind in ('env', 'math', 'group') and not m.is_arg() \
                    and all(not a.flat_contents() and all(x.blank() for x in a.body) for a in m.args) \
                    and len(m.flat_contents()) == 1 and m.flat_contents()[0].kind == 'text':
                desc = ('set_string', m.ser()[:40], s, src)

                def effect():
                    t = M('text', text=s)
                    m.body = [t]
                    t.parent = m
            else:
                return ('skip', op), None

            def call():
                h.string = s
        elif op == 'group_string':
            groups = [k for k, g in enumerate(m.args) if g.kind == 'group']
            if m.kind not in ('cmd', 'env') or not groups:
                return ('skip', op), None
            k = groups[b % len(groups)]
            s = STRINGS[c % len(STRINGS)]
            desc = ('group_string', m.ser()[:40], k, s, src)

            def effect():
                t = M('text', text=s)
                m.args[k].body = [t]
                t.parent = m.args[k]

            def call():
                h.args[k].string = s
        elif op.startswith('args_'):
            if m.kind not in ('cmd', 'env') or m.is_arg():
                return ('skip', op), None
            n = len(m.args)
            sub = op[5:]
            if sub == 'append':
                obj, g = self.fresh_args(c)
                desc = ('args.append', m.ser()[:40], g.ser(), src)

                def effect():
                    m.args.append(g)
                    g.parent = m
                call = lambda: h.args.append(obj)  # noqa: E731
            elif sub == 'insert':
                i = b % (2 * n + 3) - (n + 1)
                obj, g = self.fresh_args(c)
                desc = ('args.insert', m.ser()[:40], i, g.ser(), src)

                def effect():
                    m.args.insert(i, g)
                    g.parent = m
                call = lambda: h.args.insert(i, obj)  # noqa: E731
            elif sub == 'extend':
                pairs = [self.fresh_args(c + j * 7) for j in range(1 + c % 2)]
                desc = ('args.extend', m.ser()[:40], [g.ser() for _, g in pairs], src)

                def effect():
                    for _, g in pairs:
                        m.args.append(g)
                        g.parent = m
                call = lambda: h.args.extend([o for o, _ in pairs])  # noqa: E731
            elif sub == 'remove':
                if not n:
                    return ('skip', op), None
                k = b % n
                desc = ('args.remove', m.ser()[:40], k, src)
                # removal is by equality: the first argument that prints the same goes
                first = [j for j, g in enumerate(m.args) if g.ser() == m.args[k].ser()][0]

                def effect():
                    del m.args[first]
                call = lambda: h.args.remove(h.args[k])  # noqa: E731
            elif sub == 'pop':
                if not n:
                    return ('skip', op), None
                k = b % (2 * n) - n
                desc = ('args.pop', m.ser()[:40], k, src)

                def effect():
                    m.args.pop(k)
                call = lambda: h.args.pop(k)  # noqa: E731
            elif sub == 'reverse':
                desc = ('args.reverse', m.ser()[:40], src)
                effect = lambda: m.args.reverse()  # noqa: E731
                call = lambda: h.args.reverse()  # noqa: E731
            elif sub == 'clear':
                desc = ('args.clear', m.ser()[:40], src)
                effect = lambda: m.args.clear()  # noqa: E731
                call = lambda: h.args.clear()  # noqa: E731
            elif sub == 'selfassign':
                # `a = node.args; ...; node.args = a`: assigning a node its own list
                desc = ('args=args', m.ser()[:40], src)
                effect = lambda: None  # noqa: E731

                def call():
                    h.args = h.args
            elif sub == 'slice':
                lo = (b % (2 * n + 3)) - (n + 1)
                hi = (c % (2 * n + 3)) - (n + 1)
                stp = (None, 1, 2, -1)[d % 4]
                sl = slice(None if b % 5 == 0 else lo, None if c % 5 == 0 else hi, stp)
                desc = ('args=args[%s:%s:%s]' % (sl.start, sl.stop, sl.step), m.ser()[:40], src)

                def effect():
                    m.args[:] = m.args[sl]

                def call():
                    h.args = h.args[sl]
            if m.kind == 'cmd' and m.name == 'item':
                pass
        else:
            raise AssertionError(op)

        # coverage grid: operation x target kind x container kind x handle age x attached
        cont = 'root' if m.kind == 'root' else ('arg' if m.parent is not None and m.parent.is_arg() else
                                                (m.parent.kind if m.parent is not None else 'none'))
        count('grid.%s.%s.in-%s.%s.%s' % (str(desc[0]).split('[')[0], m.kind, cont, src, 'attached' if att else 'detached'))
        before = self.model.ser()
        exc = None
        try:
            call()
        except Exception as e:  # noqa: BLE001
            exc = type(e).__name__
            emsg = str(e)[:80]
        if expect is not None:
            if exc != expect:
                raise Violation('rejected-form-not-rejected' if exc is None else 'rejected-form-wrong-error',
                                '%r: expected %s, got %s' % (desc, expect, exc))
        elif any_exc_ok:
            # a handle on a detached node: raising is allowed, the document must not change
            pass    # not reachable through its parent any more: nothing may change
        else:
            if exc is not None:
                raise Violation('edit-raised:%s' % exc, '%r on an attached target raised %s: %s' % (desc, exc, emsg))
            effect()
        if self.model.ser() != before:
            self.changed = True
        return desc, exc

    # -- oracles -------------------------------------------------------
    def check(self, step, desc):
        soup, model = self.soup, self.model

        def V(cls, detail):
            return Violation(cls, 'after step %d %r: %s' % (step, desc, detail))
        try:
            real = str(soup)
        except Exception as e:  # noqa: BLE001
            raise V('view-raises:str:%s' % type(e).__name__, 'str(soup) raised %s' % e)
        want = model.ser()
        if real != want:
            raise V('text-differs', 'document is %r, reference model gives %r' % (real[:200], want[:200]))
        r = compare(model, soup.expr, self.reg)
        if r:
            raise V('untargeted-node-changed', r)
        mdesc = model.descendants()

        def view(label, f):
            try:
                return f()
            except Exception as e:  # noqa: BLE001
                raise V('view-raises:%s:%s' % (label, type(e).__name__), '%s raised %s: %s' % (label, type(e).__name__, str(e)[:80]))
        # descendants
        ds = view('descendants', lambda: list(soup.descendants))
        got = collections.Counter(str(x) for x in ds)
        exp = collections.Counter(x.ser() for x in mdesc)
        if got != exp:
            miss = list((exp - got).elements())[:3]
            extra = list((got - exp).elements())[:3]
            raise V('descendants-inconsistent', 'descendants lack %r and have extra %r' % (miss, extra))
        # text view
        tx = view('text', lambda: [str(t) for t in soup.text])
        etx = model.texts()
        if tx != etx:
            raise V('text-view-inconsistent', 'soup.text is %r, text leaves in document order are %r'
                    % (tx[:8], etx[:8]))
        # search
        # \(..\) and \[..\] are environments named 'math' / 'displaymath'
        def named(n):
            return n.kind in ('cmd', 'env') or (n.kind == 'math' and n.name in ('math', 'displaymath'))
        names = sorted({n.name for n in mdesc if named(n)}) + ['absentname']
        for name in names:
            found = view('find_all', lambda: soup.find_all(name))
            g = collections.Counter(str(x) for x in found)
            e = collections.Counter(n.ser() for n in mdesc if named(n) and n.name == name)
            if g != e:
                raise V('search-inconsistent', 'find_all(%r) gives %r, the document has %r'
                        % (name, sorted(g.elements())[:4], sorted(e.elements())[:4]))
            cnt = view('count', lambda: soup.count(name))
            if cnt != len(found):
                raise V('search-inconsistent', 'count(%r)=%r but find_all finds %d' % (name, cnt, len(found)))
            f1 = view('find', lambda: soup.find(name))
            if (f1 is None) != (not found) or (found and f1.expr is not found[0].expr):
                raise V('search-inconsistent', 'find(%r) is not the first result of find_all' % name)
        # parent links and per-node views
        seen = 0
        for x in ds:
            if not is_texnode(x):
                continue
            seen += 1
            mx = self.mnode(x)
            if mx is None:
                raise V('view-returned-unknown-node', 'descendants returned %r which is at no place of the model' % str(x)[:50])
            p, hops = x, 0
            while p.parent is not None:
                par = p.parent
                mp, mc = self.mnode(par), self.mnode(p)
                if mp is None or mc is None or mc.wrapper_parent() is not mp:
                    raise V('parent-link-wrong', 'parent of %r is reported as %r' % (str(p)[:40], str(par)[:40]))
                p = par
                hops += 1
                if hops > 200:
                    raise V('parent-link-wrong', 'parent chain does not end')
            if p is not soup:
                raise V('parent-link-wrong', 'walking parents from %r ends at %r, not at the root' % (str(x)[:40], str(p)[:40]))
            if seen <= 40:
                ch = view('children', lambda: x.children)
                ech = [c for c in mx.flat_contents() if c.kind != 'text']
                if [str(c) for c in ch] != [c.ser() for c in ech]:
                    raise V('children-inconsistent', 'children of %r are %r, expected %r'
                            % (str(x)[:40], [str(c)[:20] for c in ch], [c.ser()[:20] for c in ech]))
                co = view('contents', lambda: x.contents)
                if [str(c) for c in co] != [c.ser() for c in mx.flat_contents()]:
                    raise V('contents-inconsistent', 'contents of %r are %r, expected %r'
                            % (str(x)[:40], [str(c)[:20] for c in co], [c.ser()[:20] for c in mx.flat_contents()]))
                if not mx.args and mx.kind != 'text':
                    al = view('all', lambda: x.all)
                    if [str(c) for c in al] != [c.ser() for c in mx.body]:
                        raise V('all-inconsistent', 'all of %r is %r, expected %r'
                                % (str(x)[:40], [str(c)[:20] for c in al], [c.ser()[:20] for c in mx.body]))
        al = view('all', lambda: soup.all)
        if [str(c) for c in al] != [c.ser() for c in model.body]:
            raise V('all-inconsistent', 'soup.all is %r, expected %r' % ([str(c)[:20] for c in al][:8],
                                                                       [c.ser()[:20] for c in model.body][:8]))


def run(case):
    counters = {}

    def count(k, n=1):
        counters[k] = counters.get(k, 0) + n

    log = []
    resolved = []
    violation = None

    def unmet(why):
        count('precondition_unmet')
        count('unmet.' + why)
        return {'violation': None, 'digest': digest(['unmet', why]), 'log': [], 'counters': counters, 'ticks': 0,
                'key': 'unmet', 'nontrivial': False, 'summary': {'doc': case['doc'], 'ops': []}}
    try:
        sim = Sim(case, count)
    except Exception as e:  # noqa: BLE001
        return unmet('parse-' + type(e).__name__)
    if str(sim.soup) != case['doc'] or sim.model.ser() != case['doc']:
        return unmet('roundtrip')
    try:
        sim.check(-1, 'initial')
    except Violation as v:
        # a view that is already inconsistent on the unedited tree is a static
        # (C03/C04) matter, not an edit-history one
        return unmet('static-' + v.cls.split(':')[0])
    step = -1
    for step, (op, hsel, a, b, c, d) in enumerate(case['ops']):
        try:
            desc, exc = sim.step(step, op, hsel, a, b, c, d)
            resolved.append(desc)
            log.append((step, [str(x) for x in desc], exc))
            count('op.' + str(desc[0]).split('[')[0])
            if desc[0] != 'skip':
                sim.check(step, desc)
        except Violation as v:
            violation = {'class': v.cls, 'detail': v.detail}
            log.append((step, 'violation', v.cls))
            break
    key = digest([case['doc'], [list(map(str, x)) for x in resolved]])
    return {'violation': violation, 'digest': digest(log), 'log': log, 'counters': counters, 'ticks': 0,
            'key': key, 'nontrivial': sim.changed,
            'summary': {'doc': case['doc'], 'ops': [list(map(str, x)) for x in resolved if x[0] != 'skip']}}


def minimize(case, fails):
    from ..minimize import ddmin_list, shrink_ints
    cur = dict(case)
    cur['ops'] = ddmin_list(cur['ops'], lambda ops: fails(dict(cur, ops=ops)))
    chars = ddmin_list(list(cur['doc']), lambda cs: fails(dict(cur, doc=''.join(cs))), max_tests=400)
    cur['doc'] = ''.join(chars)
    cur['ops'] = ddmin_list(cur['ops'], lambda ops: fails(dict(cur, ops=ops)))
    flat = [x for o in cur['ops'] for x in o[1:]]

    def with_ints(v):
        return dict(cur, ops=[[o[0]] + list(v[5 * k:5 * k + 5]) for k, o in enumerate(cur['ops'])])
    flat = shrink_ints(flat, lambda v: fails(with_ints(v)), max_tests=300)
    return with_ints(flat)


def sample(case, res):
    return {'doc': case['doc'][:160], 'ops': res['summary']['ops'][:10]}


def vacuity(agg):
    runs = agg['runs']
    unmet = agg['counters'].get('precondition_unmet', 0)
    if runs and unmet > 0.5 * runs:
        return ('%d of %d documents were not admitted (do not parse / round-trip / have consistent views before the '
                'first edit): the edit histories were not exercised' % (unmet, runs))
    return None
