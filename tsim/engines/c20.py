"""C20 - the look-ahead buffer is a faithful cursor over its sequence.

history-sim: a seeded operation history on a lazily filled ``Buffer`` over a
stub iterator that ends at an arbitrary point, checked step by step against a
plain list + integer index.  The stream ending (at any point relative to the
cursor and to the fill level) is the fault.
"""
from ..rng import digest

PROPERTY = 'C20'
TIERS = {'quick': {'runs': 480000, 'group': 6000}, 'thorough': {'runs': 6000000, 'group': 50000}}
RULE = ('Each run draws an underlying sequence of 0-8 items (string-backed, token-backed with explicit '
        'positions, list-of-str-backed or generator-backed so that filling is lazy) and a history of 1-40 '
        'operations (next, forward, backward, peek int/range, slicing, indexing, hasNext, startswith, endswith, '
        'forward_until with peek=True/False, num_forward_until); selectors are resolved against the current '
        '(length, cursor) so every move is in range. After every step return value, item positions and '
        'buffer.position are compared with a list+index model. Non-trivial: at least one cursor-moving '
        'operation; distinct by digest of (backing, items, resolved operations).')
STUBS = ['the iterator under Buffer (string / token list / lazily pulled generator that records its fill level)']
PROBES = ['peek-negative-at-0', 'scan-at-end', 'next-at-end', 'fill-ahead-of-cursor', 'fill-equals-cursor',
          'range-peek-past-end', 'empty-buffer-op', 'backward-after-lookahead']
ASSUMPTIONS = ['items are non-empty strings (hasNext is defined through truthiness of the peeked item)',
               'moves are in range, as the property restricts them; range peeks never start before index 0']

OPS = ('next', 'forward', 'backward', 'forward_neg', 'backward_neg', 'peek', 'peekr', 'slice', 'index', 'hasNext', 'startswith',
       'endswith', 'forward_until', 'forward_until_buf', 'num_forward_until')
MOVING = ('next', 'forward', 'backward', 'forward_neg', 'backward_neg', 'forward_until', 'forward_until_buf')
STR_ITEMS = ['a', 'b', 'c', '\\', '{', ' ']
TOK_ITEMS = ['a', 'bb', '\\', 'end', '{', 'x y', '}', '$$']


def setup(job):
    pass


def teardown(job):
    return {}


def gen(st, index, job):
    r = st['doc']
    backing = ('str', 'tokens', 'gen', 'strlist')[r.randrange(4)]
    n = (0, 1, 1, 2, 2, 3, 3, 4, 5, 6, 8)[r.randrange(11)]
    pool = STR_ITEMS if backing == 'str' else TOK_ITEMS
    items = [pool[r.randrange(len(pool))] for _ in range(n)]
    ro = st['ops']
    nops = (1, 2, 2, 3, 3, 4, 5, 6, 8, 10, 14, 20, 40)[ro.randrange(13)]
    enabled = [o for o in OPS if ro.random() < 0.7] or ['next', 'peek']
    ops = []
    for _ in range(nops):
        ops.append([enabled[ro.randrange(len(enabled))], ro.randrange(64), ro.randrange(64)])
    ops[0][0] = OPS[index % len(OPS)]   # stratified first operation
    return {'backing': backing, 'items': items, 'ops': ops}


class _Model:
    def __init__(self, items, positions):
        self.L = items
        self.P = positions
        self.i = 0

    def join(self, a, b):
        a = max(a, 0)
        seg = self.L[a:b] if b is None or b >= a else []
        pos = self.P[a] if seg else None
        return ''.join(seg), pos


def _make_buffer(case, pulls):
    from TexSoup.utils import Buffer, Token
    items = case['items']
    backing = case['backing']
    positions = []
    off = 0
    for it in items:
        positions.append(off)
        off += len(it)
    if backing == 'str':
        return Buffer(''.join(items)), list(range(len(items)))
    if backing == 'strlist':
        return Buffer(list(items)), list(range(len(items)))
    toks = [Token(t, p, None) for t, p in zip(items, positions)]
    if backing == 'tokens':
        return Buffer(toks), positions

    def g():
        for t in toks:
            pulls[0] += 1
            yield t
    return Buffer(g()), positions


def _conds(items):
    pool = sorted(set(items)) or ['a']
    return pool


def run(case):
    counters = {}

    def count(k, n=1):
        counters[k] = counters.get(k, 0) + n

    pulls = [0]
    buf, positions = _make_buffer(case, pulls)
    m = _Model(list(case['items']), positions)
    n = len(m.L)
    log = [('init', case['backing'], n)]
    resolved = []
    violation = None
    moved = False
    maxfill = 0   # highest index known to have been requested from the stream

    def obs_val(v):
        if v is None:
            return None
        return str(v)

    for step, (op, a, b) in enumerate(case['ops']):
        i = m.i
        exp_exc = None
        exp_val = None
        exp_pos = None      # expected .position of returned item (None: not compared)
        real_val = None
        real_exc = None
        real_pos = None
        desc = None
        try:
            if n == 0:
                count('probe.empty-buffer-op')
            if op == 'next':
                desc = ('next',)
                if i < n:
                    exp_val, exp_pos = m.L[i], m.P[i]
                    m.i += 1
                else:
                    exp_exc = 'StopIteration'
                    count('probe.next-at-end')
                r = next(buf)
                real_val, real_pos = obs_val(r), getattr(r, 'position', None)
            elif op == 'forward':
                j = a % (n - i + 1)
                desc = ('forward', j)
                exp_val, exp_pos = m.join(i, i + j)
                m.i += j
                r = buf.forward(j)
                real_val, real_pos = obs_val(r), getattr(r, 'position', None)
            elif op == 'forward_neg':
                # forward by a negative amount is a backward move (in range)
                j = a % (i + 1)
                desc = ('forward', -j)
                m.i -= j
                exp_val, exp_pos = m.join(m.i, m.i + j)
                r = buf.forward(-j) if j else buf.forward(0)
                real_val, real_pos = obs_val(r), getattr(r, 'position', None)
            elif op == 'backward_neg':
                j = a % (n - i + 1)
                desc = ('backward', -j)
                exp_val, exp_pos = m.join(i, i + j)
                m.i += j
                r = buf.backward(-j) if j else buf.backward(0)
                real_val, real_pos = obs_val(r), getattr(r, 'position', None)
            elif op == 'backward':
                j = a % (i + 1)
                desc = ('backward', j)
                m.i -= j
                exp_val, exp_pos = m.join(m.i, m.i + j)
                if j and maxfill > i:
                    count('probe.backward-after-lookahead')
                r = buf.backward(j)
                real_val, real_pos = obs_val(r), getattr(r, 'position', None)
            elif op == 'peek':
                j = (a % (2 * n + 3)) - (n + 1)
                desc = ('peek', j)
                if 0 <= i + j < n:
                    exp_val, exp_pos = m.L[i + j], m.P[i + j]
                if i + j < 0:
                    count('probe.peek-negative-at-0' if i == 0 else 'probe.peek-before-start')
                r = buf.peek(j)
                real_val, real_pos = obs_val(r), getattr(r, 'position', None)
                maxfill = max(maxfill, min(n, i + j + 1))
            elif op == 'peekr':
                lo = -(a % (i + 1))
                hi = lo + (b % (n + 3))
                desc = ('peek', (lo, hi))
                exp_val, exp_pos = m.join(i + lo, i + hi)
                if i + hi > n:
                    count('probe.range-peek-past-end')
                r = buf.peek((lo, hi))
                real_val, real_pos = obs_val(r), getattr(r, 'position', None)
                maxfill = max(maxfill, min(n, i + hi + 1))
            elif op == 'slice':
                lo = a % (n + 2)
                hi = lo + (b % (n + 3))
                mode = (a // 16) % 4
                if mode == 0:
                    sl = slice(lo, hi)
                elif mode == 1:
                    sl = slice(None, hi)
                    lo = 0
                elif mode == 2:
                    sl = slice(lo, None)
                    hi = None
                else:
                    sl = slice(None, None)
                    lo, hi = 0, None
                desc = ('slice', sl.start, sl.stop)
                exp_val, exp_pos = m.join(lo, hi)
                r = buf[sl]
                real_val, real_pos = obs_val(r), getattr(r, 'position', None)
                maxfill = n if hi is None else max(maxfill, min(n, hi + 1))
            elif op == 'index':
                if n == 0:
                    desc = ('noop',)
                else:
                    k = a % n
                    desc = ('index', k)
                    exp_val, exp_pos = m.L[k], m.P[k]
                    r = buf[k]
                    real_val, real_pos = obs_val(r), getattr(r, 'position', None)
                    maxfill = max(maxfill, k + 1)
            elif op == 'hasNext':
                k = 1 + a % (n + 2)
                desc = ('hasNext', k)
                exp_val = str(i + k - 1 < n)
                real_val = str(bool(buf.hasNext(k)))
                maxfill = max(maxfill, min(n, i + k))
            elif op in ('startswith', 'endswith'):
                if b % 3 == 0 or n == 0:
                    s = ('a', 'ab', '\\', 'bb', 'end', 'x')[a % 6]
                else:
                    lo = a % n
                    s = ''.join(m.L[lo:lo + 1 + b % 3])
                    if b % 5 == 0:
                        s = s[:-1] or s
                desc = (op, s)
                if op == 'startswith':
                    exp_val = str(''.join(m.L[i:]).startswith(s))
                    real_val = str(bool(buf.startswith(s)))
                    maxfill = max(maxfill, min(n, i + len(s) + 1))
                else:
                    exp_val = str(''.join(m.L[:i]).endswith(s))
                    real_val = str(bool(buf.endswith(s)))
            elif op in ('forward_until', 'num_forward_until'):
                pool = _conds(m.L)
                tgt = set([pool[a % len(pool)]] + ([pool[b % len(pool)]] if b % 2 else []))
                if a % 7 == 0:
                    tgt = {'@never'}
                desc = (op, sorted(tgt))
                k = i
                while k < n and m.L[k] not in tgt:
                    k += 1
                if i >= n:
                    count('probe.scan-at-end')
                if op == 'forward_until':
                    exp_val, exp_pos = m.join(i, k)
                    if k == i and i < n:
                        exp_pos = None  # empty result: its position is not specified by a list model
                    m.i = k
                    r = buf.forward_until(lambda x: str(x) in tgt)
                    real_val, real_pos = obs_val(r), getattr(r, 'position', None)
                else:
                    exp_val = str(k - i)
                    real_val = str(buf.num_forward_until(lambda x: str(x) in tgt))
                maxfill = max(maxfill, min(n, k + 1))
            elif op == 'forward_until_buf':
                if n == 0 or a % 5 == 0:
                    s = ('ab', '\\end', 'x', '}')[b % 4]
                else:
                    lo = a % n
                    s = ''.join(m.L[lo:lo + 1 + b % 2])
                desc = ('forward_until_buf', s)
                k = i
                while k < n and not ''.join(m.L[k:k + len(s)]).startswith(s):
                    k += 1
                if i >= n:
                    count('probe.scan-at-end')
                exp_val, exp_pos = m.join(i, k)
                m.i = k
                r = buf.forward_until(lambda bb: bb.startswith(s), peek=False)
                real_val, real_pos = obs_val(r), getattr(r, 'position', None)
                maxfill = n if k >= n else max(maxfill, min(n, k + len(s) + 1))
        except StopIteration:
            real_exc = 'StopIteration'
        except Exception as e:  # noqa: BLE001
            real_exc = type(e).__name__
        if desc == ('noop',):
            continue
        resolved.append(desc)
        if op in MOVING:
            moved = True
        if maxfill > m.i:
            count('probe.fill-ahead-of-cursor')
        elif maxfill == m.i:
            count('probe.fill-equals-cursor')
        cur = buf.position
        log.append((step, desc, real_exc, real_val, real_pos if exp_pos is not None else None, cur))
        count('op.' + op)
        # coverage grid: operation x length x cursor x (fill ahead of the cursor?)
        count('grid.%s.n%d.i%d.%s' % (op, n, i, 'ahead' if maxfill > i else 'level'))
        if real_exc != exp_exc:
            if real_exc is None:
                violation = {'class': 'missing-exhaustion-signal', 'detail': 'step %d %r at cursor %d of %d: '
                             'expected %s, returned %r' % (step, desc, i, n, exp_exc, real_val)}
            else:
                violation = {'class': 'exception:%s' % real_exc, 'detail': 'step %d %r at cursor %d of %d items '
                             'raised %s (expected %s)' % (step, desc, i, n, real_exc,
                                                          exp_exc or 'value %r' % (exp_val,))}
        elif real_exc is None and real_val != exp_val:
            violation = {'class': 'wrong-value', 'detail': 'step %d %r at cursor %d of %d items %r: returned %r, '
                         'a list with an index gives %r' % (step, desc, i, n, m.L, real_val, exp_val)}
        elif cur != m.i:
            cls = 'cursor-moved' if op not in MOVING else 'wrong-cursor'
            violation = {'class': cls, 'detail': 'step %d %r: buffer.position is %d, expected %d'
                         % (step, desc, cur, m.i)}
        elif real_exc is None and exp_pos is not None and exp_val and real_pos != exp_pos:
            violation = {'class': 'wrong-item-position', 'detail': 'step %d %r at cursor %d: returned item %r '
                         'carries position %r, expected %r' % (step, desc, i, real_val, real_pos, exp_pos)}
        if violation:
            break
    key = digest([case['backing'], case['items'], resolved])
    return {'violation': violation, 'digest': digest(log), 'log': log, 'counters': counters, 'ticks': 0,
            'key': key, 'nontrivial': moved,
            'summary': {'backing': case['backing'], 'items': case['items'],
                        'ops': [list(map(str, d)) for d in resolved]}}


def minimize(case, fails):
    from ..minimize import ddmin_list, shrink_ints
    cur = dict(case)
    cur['ops'] = ddmin_list(cur['ops'], lambda ops: fails(dict(cur, ops=ops)))
    cur['items'] = ddmin_list(cur['items'], lambda it: fails(dict(cur, items=it)))
    for b in ('str', 'strlist', 'tokens'):
        if b == 'str' and any(len(x) != 1 for x in cur['items']):
            continue  # a string-backed buffer iterates characters
        if cur['backing'] != b and fails(dict(cur, backing=b)):
            cur['backing'] = b
            break
    flat = [x for o in cur['ops'] for x in o[1:]]

    def with_ints(v):
        ops = [[o[0], v[2 * k], v[2 * k + 1]] for k, o in enumerate(cur['ops'])]
        return dict(cur, ops=ops)
    flat = shrink_ints(flat, lambda v: fails(with_ints(v)))
    cur = with_ints(flat)
    return cur


def sample(case, res):
    return {'backing': case['backing'], 'items': case['items'], 'ops': res['summary']['ops'][:12]}
