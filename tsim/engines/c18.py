"""C18 - argument lists behave like Python lists of groups.

history-sim: a seeded operation history over one or more TexArgs objects
(constructed directly, owned by a parsed command / environment, or obtained by
slicing - aliases that must be independent), with rejected operations as
faults, checked step by step against Python lists of serialised groups.
"""
from ..rng import digest

PROPERTY = 'C18'
TIERS = {'quick': {'runs': 160000, 'group': 2500}, 'thorough': {'runs': 4000000, 'group': 25000}}
RULE = ('Each run builds 1-2 argument lists (direct TexArgs, or node.args of a parsed command or environment) '
        'from a pool of brace/bracket groups with duplicates, then applies a history of 1-40 operations (append, '
        'extend, insert at any index in [-(len+2), len+2], remove, pop() / pop(i), reverse, clear, x[i], x[a:b:c], '
        'len, in, slicing into a new independent list) with arguments given as group objects or unparsed strings, '
        'plus rejected operations (malformed strings, absent items, bad indices). After every step every list is '
        'compared with a Python list of serialised groups. Non-trivial: at least one mutating operation succeeded; '
        'distinct by digest of (owners, initial groups, resolved operations).')
STUBS = []
PROBES = ['extend-self', 'whitespace-in-shadow-list', 'owner-reassigned', 'same-object-twice', 'duplicate-present', 'insert-negative', 'insert-beyond-len', 'pop-default', 'rejected-malformed',
          'rejected-absent', 'rejected-index', 'slice-alias-mutated', 'owner-cmd', 'owner-env', 'string-coerced']
ASSUMPTIONS = ['whitespace-only strings are not part of the operation set (the property does not define them)',
               'extend() is only given well-formed elements']

POOL = ['{a}', '[a]', '{a}', '{}', '[b c]', '{\\x}', '[]', '{b}', '{{a}b}', '[[1]]']
BAD = ['{x]', 'x', '[y}', '{', ']', '(z)', 'a{b}']
OPS = ('append', 'extend', 'insert', 'remove', 'pop', 'pop0', 'reverse', 'clear', 'getitem', 'slice', 'len',
       'contains', 'newslice', 'bad_append', 'bad_insert', 'bad_remove', 'reassign')
MUTATING = ('append', 'extend', 'insert', 'remove', 'pop', 'pop0', 'reverse', 'clear')


def setup(job):
    # the step clock bounds every operation: `args.extend(args)` must terminate
    from ..stepclock import CLOCK
    CLOCK.install()


def teardown(job):
    return {}


def gen(st, index, job):
    r = st['doc']
    nlists = (1, 1, 1, 2)[r.randrange(4)]
    lists = []
    for _ in range(nlists):
        owner = ('none', 'none', 'cmd', 'env')[r.randrange(4)]
        n = (0, 1, 1, 2, 2, 3, 4, 5)[r.randrange(8)]
        spec = {'owner': owner, 'init': [POOL[r.randrange(len(POOL))] for _ in range(n)]}
        if owner == 'none' and r.random() < 0.3:
            # whitespace recorded between the arguments (it lives in the shadow list
            # only; the list proper and every operation on it are unaffected)
            spec['ws'] = [('', '\n', ' ', '\t ')[r.randrange(4)] for _ in range(n + 1)]
        lists.append(spec)
    ro = st['ops']
    nops = (1, 2, 2, 3, 3, 4, 5, 6, 8, 10, 14, 20, 40)[ro.randrange(13)]
    enabled = [o for o in OPS if ro.random() < 0.7] or ['append', 'pop']
    ops = [[enabled[ro.randrange(len(enabled))], ro.randrange(256), ro.randrange(256), ro.randrange(256)]
           for _ in range(nops)]
    ops[0][0] = OPS[index % len(OPS)]   # stratified first operation
    return {'lists': lists, 'ops': ops}


def _group(text, as_object):
    """A pool entry as an object (a fresh group) or as the unparsed string."""
    if not as_object:
        return text
    from TexSoup.data import BraceGroup, BracketGroup, TexCmd
    inner = text[1:-1]
    cls = BraceGroup if text[0] == '{' else BracketGroup
    if inner == '\\x':
        return cls(TexCmd('x'))
    if inner == '':
        return cls()
    return cls(inner)


def _build(spec):
    from TexSoup import TexSoup
    from TexSoup.data import TexArgs
    if spec['owner'] == 'none':
        items = list(spec['init'])
        ws = spec.get('ws')
        if ws:
            mixed = []
            for k, it in enumerate(items):
                if ws[k]:
                    mixed.append(ws[k])
                mixed.append(it)
            if ws[len(items)]:
                mixed.append(ws[len(items)])
            items = mixed
            # (probe) whitespace entries present in the shadow list
        return TexArgs(items), None, '', ''
    if spec['owner'] == 'cmd':
        soup = TexSoup('\\cmd' + ''.join(spec['init']))
        node = soup.find('cmd')
        return node.args, node, '\\cmd', ''
    soup = TexSoup('\\begin{env}' + ''.join(spec['init']) + 'body\\end{env}')
    node = soup.find('env')
    return node.args, node, '\\begin{env}', 'body\\end{env}'


def run(case):
    from TexSoup.data import TexArgs
    counters = {}

    def count(k, n=1):
        counters[k] = counters.get(k, 0) + n

    real, model, owners = [], [], []
    log = []
    violation = None
    for spec in case['lists']:
        try:
            a, node, pre, post = _build(spec)
        except Exception as e:  # noqa: BLE001
            violation = {'class': 'exception:%s' % type(e).__name__,
                         'detail': 'building the list %r raised %s' % (spec, e)}
            break
        # a parsed '{a}[b c]' may legitimately read differently from the pool
        # text only if the parser is broken; the model starts from the real list
        init = [str(g) for g in a]
        if init != spec['init']:
            count('precondition_unmet')
            return {'violation': None, 'digest': digest(['unmet']), 'log': [], 'counters': counters, 'ticks': 0,
                    'key': 'unmet', 'nontrivial': False, 'summary': {}}
        real.append(a)
        model.append(list(init))
        owners.append((node, pre, post))
        count('probe.owner-' + spec['owner'])
        if spec.get('ws') and any(spec['ws']):
            count('probe.whitespace-in-shadow-list')
    resolved = []
    mutated = False
    aliases = set()    # indices of lists created by slicing
    step = -1
    if violation is None:
        for step, (op, a, b, c) in enumerate(case['ops']):
            k = a % len(real)
            R, M = real[k], model[k]
            n = len(M)
            exp_exc = exp_ret = None
            real_exc = real_ret = None
            as_obj = bool(b & 1)
            if len(set(M)) < len(M):
                count('probe.duplicate-present')
            from ..stepclock import CLOCK, StepBudgetExceeded
            CLOCK.start(budget=200_000)
            try:
                if op in ('append', 'insert') and n and c % 6 == 5:
                    # re-use an element that is already in the list (the same
                    # object then occurs twice), as `args.insert(0, args[-1])` does
                    j = b % n
                    count('probe.same-object-twice')
                    if op == 'append':
                        desc = ('append', k, 'args[%d]' % j)
                        M.append(M[j])
                        R.append(R[j])
                    else:
                        i = (b // 2) % (2 * n + 5) - (n + 2)
                        desc = ('insert', k, i, 'args[%d]' % j)
                        M.insert(i, M[j])
                        R.insert(i, R[j])
                elif op == 'extend' and n and c % 6 == 4:
                    # a list extended by itself doubles (l.extend(l))
                    desc = ('extend', k, 'args')
                    count('probe.extend-self')
                    M.extend(list(M))
                    R.extend(R)
                elif op == 'extend' and n and c % 6 == 5:
                    lo = b % n
                    desc = ('extend', k, 'args[%d:%d]' % (lo, lo + 2))
                    count('probe.same-object-twice')
                    M.extend(M[lo:lo + 2])
                    R.extend(R[lo:lo + 2])
                elif op == 'append':
                    g = POOL[c % len(POOL)]
                    desc = ('append', k, g, 'obj' if as_obj else 'str')
                    M.append(g)
                    R.append(_group(g, as_obj))
                    if not as_obj:
                        count('probe.string-coerced')
                elif op == 'extend':
                    gs = [POOL[(c + j * 3) % len(POOL)] for j in range(b % 3)]
                    desc = ('extend', k, gs)
                    M.extend(gs)
                    R.extend([_group(g, (c + j) & 1) for j, g in enumerate(gs)])
                elif op == 'insert':
                    i = (b // 2) % (2 * n + 5) - (n + 2)
                    g = POOL[c % len(POOL)]
                    desc = ('insert', k, i, g, 'obj' if as_obj else 'str')
                    if i < 0:
                        count('probe.insert-negative')
                    if i > n:
                        count('probe.insert-beyond-len')
                    M.insert(i, g)
                    R.insert(i, _group(g, as_obj))
                elif op == 'remove':
                    if n and c % 4:
                        g = M[b % n]
                    else:
                        g = POOL[c % len(POOL)]
                    desc = ('remove', k, g, 'obj' if as_obj else 'str')
                    if g not in M:
                        exp_exc = 'ValueError'
                        count('probe.rejected-absent')
                    else:
                        M.remove(g)
                    R.remove(_group(g, as_obj))
                elif op == 'pop':
                    i = b % (2 * n + 3) - (n + 1)
                    desc = ('pop', k, i)
                    try:
                        exp_ret = M.pop(i)
                    except IndexError:
                        exp_exc = 'IndexError'
                        count('probe.rejected-index')
                    real_ret = str(R.pop(i))
                elif op == 'pop0':
                    desc = ('pop', k)
                    count('probe.pop-default')
                    try:
                        exp_ret = M.pop()
                    except IndexError:
                        exp_exc = 'IndexError'
                    real_ret = str(R.pop())
                elif op == 'reverse':
                    desc = ('reverse', k)
                    M.reverse()
                    R.reverse()
                elif op == 'clear':
                    desc = ('clear', k)
                    M.clear()
                    R.clear()
                elif op == 'getitem':
                    i = b % (2 * n + 3) - (n + 1)
                    desc = ('getitem', k, i)
                    try:
                        exp_ret = M[i]
                    except IndexError:
                        exp_exc = 'IndexError'
                        count('probe.rejected-index')
                    real_ret = str(R[i])
                elif op in ('slice', 'newslice'):
                    lo = (b % (2 * n + 4)) - (n + 2)
                    hi = (c % (2 * n + 4)) - (n + 2)
                    stp = (None, 1, 2, -1, None, -2)[(b // 7) % 6]
                    lo = None if b % 5 == 0 else lo
                    hi = None if c % 5 == 0 else hi
                    sl = slice(lo, hi, stp)
                    desc = (op, k, lo, hi, stp)
                    exp_ret = M[sl]
                    v = R[sl]
                    if not isinstance(v, TexArgs):
                        violation = {'class': 'slice-not-texargs', 'detail': 'step %d %r returned %s'
                                     % (step, desc, type(v).__name__)}
                    real_ret = [str(g) for g in v]
                    if op == 'newslice' and len(real) < 4 and violation is None:
                        real.append(v)
                        model.append(list(exp_ret))
                        owners.append((None, '', ''))
                        aliases.add(len(real) - 1)
                elif op == 'reassign':
                    node = owners[k][0]
                    if node is None:
                        desc = ('len', k)
                        exp_ret, real_ret = n, len(R)
                    else:
                        # `a = node.args; ...; node.args = a`: the owner is given its own list back
                        desc = ('owner.args=args', k)
                        count('probe.owner-reassigned')
                        node.args = R
                        real[k] = node.args
                elif op == 'len':
                    desc = ('len', k)
                    exp_ret, real_ret = n, len(R)
                elif op == 'contains':
                    if b % 3 == 0:
                        s = ('a', 'b c', '', 'zz', '\\x')[c % 5]
                        desc = ('contains-str', k, s)
                        exp_ret = any(g[1:-1] == s for g in M)
                        real_ret = s in R
                    else:
                        g = POOL[c % len(POOL)]
                        desc = ('contains-obj', k, g)
                        exp_ret = g in M
                        real_ret = _group(g, True) in R
                elif op in ('bad_append', 'bad_insert', 'bad_remove'):
                    s = BAD[c % len(BAD)]
                    exp_exc = 'TypeError'
                    count('probe.rejected-malformed')
                    if op == 'bad_append':
                        desc = ('append', k, s)
                        R.append(s)
                    elif op == 'bad_insert':
                        i = b % (n + 1)
                        desc = ('insert', k, i, s)
                        R.insert(i, s)
                    else:
                        desc = ('remove', k, s)
                        R.remove(s)
                else:
                    raise AssertionError(op)
            except StepBudgetExceeded:
                real_exc = 'StepBudgetExceeded'
                real_msg = 'the operation did not finish within 200000 steps'
            except Exception as e:  # noqa: BLE001
                real_exc = type(e).__name__
                real_msg = str(e)[:100]
            finally:
                CLOCK.stop()
            resolved.append(desc)
            log.append((step, [str(x) for x in desc], real_exc, str(real_ret)))
            count('op.' + op)
            # coverage grid: operation x length class x duplicates x outcome
            count('grid.%s.len%s.%s.%s' % (op, '0' if n == 0 else '1' if n == 1 else '2+',
                                           'dup' if len(set(M)) < len(M) else 'nodup',
                                           'raised' if real_exc else 'ok'))
            if violation is None:
                if real_exc != exp_exc:
                    if real_exc is None:
                        violation = {'class': 'not-rejected', 'detail': 'step %d %r on %r: a Python list raises %s, '
                                     'TexArgs returned %r' % (step, desc, M, exp_exc, real_ret)}
                    elif real_exc == 'StepBudgetExceeded':
                        violation = {'class': 'hang', 'detail': 'step %d %r on list %r does not terminate (more than '
                                     '200000 steps); a Python list %s' % (step, desc, M[:6], 'raises ' + exp_exc
                                                                         if exp_exc else 'succeeds')}
                    else:
                        violation = {'class': 'exception:%s' % real_exc, 'detail': 'step %d %r on list %r raised %s '
                                     '(%s); a Python list %s' % (step, desc, model[k], real_exc, real_msg,
                                                                 'raises ' + exp_exc if exp_exc else 'succeeds')}
                elif real_exc is None and exp_ret is not None and real_ret != exp_ret:
                    violation = {'class': 'wrong-return', 'detail': 'step %d %r: returned %r, a Python list gives %r'
                                 % (step, desc, real_ret, exp_ret)}
            if real_exc is None and op in MUTATING:
                mutated = True
                if k in aliases or any(j in aliases for j in range(len(real))):
                    count('probe.slice-alias-mutated')
            # state of every list after every step (aliases must be independent)
            if violation is None:
                for j in range(len(real)):
                    cur = [str(g) for g in real[j]]
                    if cur != model[j] or len(real[j]) != len(model[j]):
                        cls = 'list-diverged' if j == k else 'alias-affected'
                        if exp_exc and real_exc:
                            cls = 'rejected-op-changed-list'
                        violation = {'class': cls, 'detail': 'after step %d %r: list %d is %r, model %r'
                                     % (step, desc, j, cur, model[j])}
                        break
                    if str(real[j]) != ''.join(model[j]):
                        violation = {'class': 'wrong-serialisation', 'detail': 'after step %d %r: str(args) is %r, '
                                     'groups are %r' % (step, desc, str(real[j]), model[j])}
                        break
                    shadow = [str(x) for x in real[j].all if not (isinstance(x, str) and x.isspace())]
                    # compared as multisets: the shadow list must hold exactly the
                    # groups of the list; its ORDER is not observable through anything
                    # the property names (once the same object has been in the list
                    # twice, pop() may give up the other occurrence in the shadow list)
                    if sorted(shadow) != sorted(cur):
                        violation = {'class': 'shadow-out-of-step', 'detail': 'after step %d %r: list %d holds %r but '
                                     'its shadow list .all holds %r' % (step, desc, j, cur, [str(x) for x in real[j].all])}
                        break
                    node, pre, post = owners[j]
                    if node is not None and str(node) != pre + ''.join(model[j]) + post:
                        violation = {'class': 'owner-prints-differently', 'detail': 'after step %d %r: owner prints %r, '
                                     'expected %r' % (step, desc, str(node), pre + ''.join(model[j]) + post)}
                        break
            if violation:
                break
    key = digest([case['lists'], [list(map(str, d)) for d in resolved]])
    return {'violation': violation, 'digest': digest(log), 'log': log, 'counters': counters, 'ticks': 0,
            'key': key, 'nontrivial': mutated,
            'summary': {'lists': case['lists'], 'ops': [list(map(str, d)) for d in resolved]}}


def minimize(case, fails):
    from ..minimize import ddmin_list, shrink_ints
    cur = dict(case)
    cur['ops'] = ddmin_list(cur['ops'], lambda ops: fails(dict(cur, ops=ops)))
    if len(cur['lists']) > 1:
        for keep in range(len(cur['lists'])):
            cand = dict(cur, lists=[cur['lists'][keep]])
            if fails(cand):
                cur = cand
                break
    for li in range(len(cur['lists'])):
        spec = cur['lists'][li]

        def with_init(init, li=li, spec=spec):
            ls = list(cur['lists'])
            ls[li] = dict(spec, init=init)
            return dict(cur, lists=ls)
        init = ddmin_list(spec['init'], lambda init: fails(with_init(init)))
        cur = with_init(init)
        if cur['lists'][li]['owner'] != 'none':
            ls = list(cur['lists'])
            ls[li] = dict(ls[li], owner='none')
            if fails(dict(cur, lists=ls)):
                cur = dict(cur, lists=ls)
    flat = [x for o in cur['ops'] for x in o[1:]]

    def with_ints(v):
        return dict(cur, ops=[[o[0], v[3 * k], v[3 * k + 1], v[3 * k + 2]] for k, o in enumerate(cur['ops'])])
    flat = shrink_ints(flat, lambda v: fails(with_ints(v)))
    return with_ints(flat)


def sample(case, res):
    return {'lists': case['lists'], 'ops': res['summary'].get('ops', [])[:12]}


def vacuity(agg):
    runs = agg['runs']
    unmet = agg['counters'].get('precondition_unmet', 0)
    if runs and unmet > 0.5 * runs:
        return '%d of %d argument lists could not be built as specified' % (unmet, runs)
    return None
