"""Common part of the two stream-sim engines (C06, C07)."""
from .. import simreader, streamsim, texapi
from ..rng import digest
from ..stepclock import CLOCK


def make(prop):
    def setup(job):
        CLOCK.install(line_coverage=True)
        texapi.sanity()

    def teardown(job):
        hit, total = CLOCK.line_coverage()
        return {'lines_hit': ['%s:%d' % (f.rsplit('/', 1)[-1], l) for f, l in hit], 'lines_total': total,
                'code_objects': CLOCK.ncode}

    def gen(st, index, job):
        return streamsim.gen_case(st, prop, index, job.get('tier', 'quick'))

    def run(case):
        try:
            r = streamsim.execute(case, props=(prop,))
        except MemoryError:
            # the tree (or its text) outgrew the world's memory cap after the parse returned
            import gc
            gc.collect()
            D = ''.join(simreader.apply_faults(case['wire'], case.get('faults', []))[0])
            v = {'class': 'resource-exhaustion:memory', 'tolerance': 1,
                 'detail': 'parsing or printing %d chars exhausted the memory cap of the world' % len(D)}
            lg = [('deliver', case['form'], digest(D)), ('memory-exhausted',)]
            return {'violation': v if prop == 'C06' else None, 'digest': digest(lg), 'log': lg,
                    'counters': {'memory-exhausted': 1}, 'ticks': 0, 'key': digest([D]), 'nontrivial': True,
                    'buckets': {}, 'summary': {'D': D, 'outcomes': 'memory', 'mode': case['mode']}}
        v = r['verdicts'][prop]
        return {'violation': v, 'digest': r['digest'], 'log': r['log'], 'counters': r['counters'],
                'ticks': r['ticks'], 'key': r['key'], 'nontrivial': r['nontrivial'], 'buckets': r['buckets'],
                'case_override': r.get('case_override'),
                'summary': dict(r['extra_summary'], D=r['D'], outcomes='/'.join(r['outcomes']),
                                mode=case['mode'])}

    def minimize(case, fails):
        r = streamsim.execute(case, props=(prop,))['verdicts'][prop]
        slow = bool(r) and r['class'] in ('hang', 'resource-exhaustion:memory')
        return streamsim.minimize(case, fails, slow=slow)

    def sample(case, res):
        return {'mode': case['mode'], 'form': case['form'], 'faults': case.get('faults', []),
                'delivered': res['summary']['D'][:200], 'outcomes': res['summary']['outcomes']}

    return setup, teardown, gen, run, minimize, sample
