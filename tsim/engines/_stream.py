"""Common part of the two stream-sim engines (C06, C07)."""
from .. import streamsim, texapi
from ..stepclock import CLOCK


def make(prop):
    def setup(job):
        CLOCK.install(line_coverage=True)
        texapi.sanity()

    def teardown(job):
        hit, total = CLOCK.line_coverage()
        return {'lines_hit': ['%s:%d' % (f.rsplit('/', 1)[-1], l) for f, l in hit], 'lines_total': total,
                'code_objects': CLOCK.ncode}

    def gen(st, index, job):
        return streamsim.gen_case(st, prop)

    def run(case):
        r = streamsim.execute(case, props=(prop,))
        v = r['verdicts'][prop]
        return {'violation': v, 'digest': r['digest'], 'log': r['log'], 'counters': r['counters'],
                'ticks': r['ticks'], 'key': r['key'], 'nontrivial': r['nontrivial'],
                'summary': dict(r['extra_summary'], D=r['D'], outcomes='/'.join(r['outcomes']),
                                mode=case['mode'])}

    def minimize(case, fails):
        return streamsim.minimize(case, fails)

    def sample(case, res):
        return {'mode': case['mode'], 'form': case['form'], 'faults': case.get('faults', []),
                'delivered': res['summary']['D'][:200], 'outcomes': res['summary']['outcomes']}

    return setup, teardown, gen, run, minimize, sample
