"""CLI: python -m tsim check <id> [--tier quick|thorough] | replay <path> | selftest"""
import argparse
import os
import sys


def main(argv=None):
    ap = argparse.ArgumentParser(prog='tsim')
    sub = ap.add_subparsers(dest='cmd', required=True)
    c = sub.add_parser('check')
    c.add_argument('prop')
    c.add_argument('--tier', default=os.environ.get('VERIF_TIER', 'quick'), choices=['quick', 'thorough'])
    c.add_argument('--seed', type=int, default=None)
    c.add_argument('--runs', type=int, default=None)
    c.add_argument('--quiet', action='store_true')
    r = sub.add_parser('replay')
    r.add_argument('path')
    s = sub.add_parser('selftest')
    s.add_argument('--quick', action='store_true')
    s.add_argument('what', nargs='*')
    a = ap.parse_args(argv)
    from . import driver
    if a.cmd == 'check':
        return driver.check(a.prop.upper(), a.tier, a.seed, a.runs, a.quiet)
    if a.cmd == 'replay':
        return driver.replay(a.path)
    if a.cmd == 'selftest':
        from . import selftest
        return selftest.main(a)


if __name__ == '__main__':
    sys.exit(main())
