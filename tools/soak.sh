#!/bin/sh
# usage: tools/soak.sh <first-seed> <last-seed> [props...]   (quick tier, every seed x property)
# prints one line per run; any non-zero exit is an alarm on the unchanged tree to be triaged
A=$1; B=$2; shift 2
PROPS=${*:-"C06 C07 C15 C17 C18 C20"}
s=$A
while [ $s -le $B ]; do
  for p in $PROPS; do
    VERIF_SEED=$s /venv/bin/python -m tsim check $p --quiet > soak_$p_$s.log 2>&1
    rc=$?
    echo "seed=$s prop=$p exit=$rc $(grep -c KNOWN-FINDING soak_$p_$s.log) known"
    if [ $rc -ne 0 ]; then grep -E "violation class|HARNESS|VIOLATION" soak_$p_$s.log | cut -c1-400; mkdir -p soak_fail; cp soak_$p_$s.log soak_fail/${p}_$s.log; cp -r out/replays soak_fail/replays_$s 2>/dev/null; fi
    rm -f soak_$p_$s.log
  done
  s=$((s+1))
done
