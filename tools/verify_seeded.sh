#!/bin/sh
# usage: tools/verify_seeded.sh [name...]  -- for every seeded change: scratch worktree of /repo HEAD,
# suite passes with the patch, demo fails with it and passes without it. Removes the worktree.
cd /verif/seeded
for d in ${*:-M*}; do
  W=/tmp/wt_vs_$$
  git -C /repo worktree add -q --detach $W HEAD || exit 3
  cp $d/demo.py $W/demo.py
  ( cd $W && git apply /verif/seeded/$d/patch.diff ) || { echo "$d: PATCH DOES NOT APPLY"; git -C /repo worktree remove --force $W; continue; }
  t=$(cd $W && PYTHONPATH=$W /venv/bin/python -m pytest -q -p no:cacheprovider 2>&1 | tail -1)
  ( cd $W && PYTHONPATH=$W timeout 300 /venv/bin/python demo.py >/dev/null 2>&1 ); w=$?
  ( cd $W && git apply -R /verif/seeded/$d/patch.diff && PYTHONPATH=$W timeout 300 /venv/bin/python demo.py >/dev/null 2>&1 ); wo=$?
  echo "$d: tests[$t] demo_with=$w demo_without=$wo"
  git -C /repo worktree remove --force $W
done
