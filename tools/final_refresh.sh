#!/bin/sh
# Refreshes what is committed from runs: determinism self-test result and the six
# evidence files (quick tier, default VERIF_SEED), run in /verif against /repo.
cd /verif || exit 3
/venv/bin/python -m tsim selftest || exit 2
for p in C06 C07 C15 C17 C18 C20; do
  /venv/bin/python -m tsim check $p --tier quick --quiet > out/final_$p.log 2>&1
  echo "$p exit=$? $(grep -c KNOWN-FINDING out/final_$p.log) known"
  grep -E "VIOLATION|HARNESS" out/final_$p.log
done
python3-vt - <<'PY'
import json, jsonschema, glob
jsonschema.validate(json.load(open('/verif/MANIFEST.json')), json.load(open('/root/.vp/MANIFEST.schema.json')))
sch = json.load(open('/root/.vp/EVIDENCE.schema.json'))
for f in sorted(glob.glob('/verif/evidence/*.json')):
    jsonschema.validate(json.load(open(f)), sch)
    print('valid', f)
PY
