#!/bin/sh
# usage: verify_mut.sh <worktree>  -- confirms: tests pass with change, demo fails with / passes without
W=$1
cd $W || exit 3
git apply --check -R patch.diff 2>/dev/null || { echo "patch not applied in worktree?"; }
t=$(PYTHONPATH=$W /venv/bin/python -m pytest -q -p no:cacheprovider 2>&1 | tail -1)
PYTHONPATH=$W timeout 120 /venv/bin/python demo.py >/dev/null 2>&1; w=$?
git apply -R patch.diff
PYTHONPATH=$W timeout 120 /venv/bin/python demo.py >/dev/null 2>&1; wo=$?
git apply patch.diff
echo "$W: tests[$t] demo_with=$w demo_without=$wo"
