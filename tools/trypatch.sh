#!/bin/sh
# usage: tools/trypatch.sh <patch.diff> <PROP> [extra tsim check args...]
# Applies the patch to a scratch copy of /repo (outside /repo and /verif), runs
# one check against it, prints the outcome, removes the copy.
PATCH=$(readlink -f "$1"); PROP=$2; shift 2
S=$(mktemp -d /tmp/tsim-try-XXXXXX)
trap 'rm -rf "$S"' EXIT
git -C /repo archive HEAD | tar -x -C "$S" || exit 3
patch -p1 -s -d "$S" -i "$PATCH" || exit 3
cd /verif
TSIM_REPO="$S" timeout 1800 /venv/bin/python -m tsim check "$PROP" --quiet "$@" > "$S/.log" 2>&1
rc=$?
cut -c1-400 "$S/.log" | tail -12
echo "exit=$rc"
