#!/bin/sh
# runs every thorough check once (default seed) and prints exit codes
for p in ${*:-C20 C18 C15 C17 C07 C06}; do
  /venv/bin/python -m tsim check $p --tier thorough --quiet > thorough_$p.log 2>&1
  echo "thorough $p exit=$? $(grep -o 'runs=[0-9]* distinct_nontrivial=[0-9]*' thorough_$p.log) $(grep -o 'wall=[0-9.]*s' thorough_$p.log)"
  grep -E "violation class|HARNESS|KNOWN" thorough_$p.log | cut -c1-300 | head -8
done
